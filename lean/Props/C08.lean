import SynapModel.Optim
import Mathlib.Algebra.Field.Basic
import Mathlib.Tactic.Ring
import Mathlib.Algebra.BigOperators.Group.Finset.Basic
/-!
# C08 — Optimizers follow the published SGD/Adam/AdamW update rules on any history

Statements about `Synap.Optim` (the model of synapgrad/optim/optimizers.py) over an arbitrary
field `α` with an arbitrary square-root function, for every hyper-parameter setting, every number
of parameters and every finite history over {backward, zero_grad, step, freeze/unfreeze}.
-/
namespace Props.C08
open Synap.Optim

variable {α : Type} [Field α] [HasSqrt α]

-- statements about SGD do not use the square root; keep one `variable` line for the whole file
set_option linter.unusedSectionVars false

/-- the configuration flags agree with the values they are computed from (`x != 0`) -/
def SGDCfg.Consistent (c : SGDCfg α) : Prop :=
  (c.useWd = false → c.weightDecay = 0) ∧ (c.useMom = false → c.momentum = 0)

/-- documented Adam / AdamW recursion for one parameter: state = (θ, m, v, t) -/
def adamSpecStep (c : AdamCfg α) (st : α × Moments α) (g : α) : α × Moments α :=
  let θ := st.1
  let t := st.2.t + 1
  let g := if c.maximize then -g else g
  let θ := if c.decoupled then θ - c.lr * c.weightDecay * θ else θ
  let g := if c.decoupled then g else g + c.weightDecay * θ
  let m := c.beta1 * st.2.m1 + (1 - c.beta1) * g
  let v := c.beta2 * st.2.m2 + (1 - c.beta2) * g ^ 2
  let mh := m / (1 - c.beta1 ^ t)
  let vh := v / (1 - c.beta2 ^ t)
  (θ - c.lr * mh / (HasSqrt.sqrt vh + c.eps), ⟨m, v, t⟩)


/-! ### Helper machinery: one-parameter simulation -/
section Helpers
variable {β : Type}

theorem getElem?_modifyAt {γ : Type} (l : List γ) (i : Nat) (f : γ → γ) (k : Nat) :
    (modifyAt l i f)[k]? = (l[k]?).map (fun x => if k = i then f x else x) := by
  unfold modifyAt
  rw [List.getElem?_map, List.getElem?_zipIdx]
  cases l[k]? <;> simp

theorem length_modifyAt {γ : Type} (l : List γ) (i : Nat) (f : γ → γ) :
    (modifyAt l i f).length = l.length := by
  simp [modifyAt]

/-- generic `step` of one parameter, for an update `upd θ g b` with per-parameter state `β` -/
def stepP (upd : α → α → β → α × β) (p : P α) (b : β) : P α × β :=
  match p.rg, p.grad with
  | true, some g => ({ p with θ := (upd p.θ g b).1 }, (upd p.θ g b).2)
  | _, _ => (p, b)

/-- what one event does to parameter `i` and its optimizer state -/
def sim1 (upd : α → α → β → α × β) (i : Nat) (st : P α × β) : Ev α → P α × β
  | .backward j g => (if j = i then accumulate st.1 g else st.1, st.2)
  | .zeroGrad => (zeroP st.1, st.2)
  | .setRg j b => (if j = i then { st.1 with rg := b } else st.1, st.2)
  | .step => stepP upd st.1 st.2

theorem sgdStepP_eq (c : SGDCfg α) (p : P α) (b : Option α) :
    sgdStepP c p b = stepP (sgdUpdate c) p b := by
  unfold sgdStepP stepP
  split <;> simp_all

theorem adamStepP_eq (c : AdamCfg α) (p : P α) (b : Moments α) :
    adamStepP c p b = stepP (adamUpdate c) p b := by
  unfold adamStepP stepP
  split <;> simp_all

theorem getElem?_zipWith_some {γ δ ε : Type} (f : γ → δ → ε) (l₁ : List γ) (l₂ : List δ) (i : Nat)
    (a : γ) (b : δ) (h₁ : l₁[i]? = some a) (h₂ : l₂[i]? = some b) :
    (List.zipWith f l₁ l₂)[i]? = some (f a b) := by
  rw [List.getElem?_zipWith, h₁, h₂]

theorem getElem?_zipWith_none {γ δ ε : Type} (f : γ → δ → ε) (l₁ : List γ) (l₂ : List δ) (i : Nat)
    (h₁ : l₁[i]? = none) :
    (List.zipWith f l₁ l₂)[i]? = none := by
  rw [List.getElem?_zipWith, h₁]

/-- one SGD event acts on parameter `i` as `sim1` -/
theorem sgdEv_sim (c : SGDCfg α) (s : SGDState α) (i : Nat) (p : P α) (b : Option α)
    (hp : s.ps[i]? = some p) (hb : s.bufs[i]? = some b) (e : Ev α) :
    (sgdEv c s e).ps[i]? = some (sim1 (sgdUpdate c) i (p, b) e).1 ∧
    (sgdEv c s e).bufs[i]? = some (sim1 (sgdUpdate c) i (p, b) e).2 := by
  cases e with
  | backward j g =>
    by_cases hj : j = i
    · subst hj; simp [sgdEv, sim1, getElem?_modifyAt, hp, hb]
    · have hj' : ¬ i = j := fun h => hj h.symm
      simp [sgdEv, sim1, getElem?_modifyAt, hp, hb, hj, hj']
  | zeroGrad => simp [sgdEv, sim1, hp, hb]
  | setRg j r =>
    by_cases hj : j = i
    · subst hj; simp [sgdEv, sim1, getElem?_modifyAt, hp, hb]
    · have hj' : ¬ i = j := fun h => hj h.symm
      simp [sgdEv, sim1, getElem?_modifyAt, hp, hb, hj, hj']
  | step =>
    simp only [sgdEv, sim1, List.getElem?_map]
    rw [getElem?_zipWith_some _ _ _ _ _ _ hp hb, sgdStepP_eq]
    simp

theorem sgdRun_sim (c : SGDCfg α) (evs : List (Ev α)) (s : SGDState α) (i : Nat) (p : P α)
    (b : Option α) (hp : s.ps[i]? = some p) (hb : s.bufs[i]? = some b) :
    (sgdRun c s evs).ps[i]? = some (evs.foldl (sim1 (sgdUpdate c) i) (p, b)).1 ∧
    (sgdRun c s evs).bufs[i]? = some (evs.foldl (sim1 (sgdUpdate c) i) (p, b)).2 := by
  induction evs generalizing s p b with
  | nil => exact ⟨hp, hb⟩
  | cons e es ih =>
    obtain ⟨h1, h2⟩ := sgdEv_sim c s i p b hp hb e
    exact ih (sgdEv c s e) _ _ h1 h2

theorem sgdEv_none (c : SGDCfg α) (s : SGDState α) (i : Nat) (hp : s.ps[i]? = none) (e : Ev α) :
    (sgdEv c s e).ps[i]? = none := by
  cases e with
  | backward j g => simp [sgdEv, getElem?_modifyAt, hp]
  | zeroGrad => simp [sgdEv, hp]
  | setRg j r => simp [sgdEv, getElem?_modifyAt, hp]
  | step =>
    simp only [sgdEv, List.getElem?_map]
    rw [getElem?_zipWith_none _ _ _ _ hp]
    rfl

theorem sgdRun_none (c : SGDCfg α) (evs : List (Ev α)) (s : SGDState α) (i : Nat)
    (hp : s.ps[i]? = none) : (sgdRun c s evs).ps[i]? = none := by
  induction evs generalizing s with
  | nil => exact hp
  | cons e es ih => exact ih (sgdEv c s e) (sgdEv_none c s i hp e)

/-- one Adam event acts on parameter `i` as `sim1` -/
theorem adamEv_sim (c : AdamCfg α) (s : AdamState α) (i : Nat) (p : P α) (b : Moments α)
    (hp : s.ps[i]? = some p) (hb : s.mos[i]? = some b) (e : Ev α) :
    (adamEv c s e).ps[i]? = some (sim1 (adamUpdate c) i (p, b) e).1 ∧
    (adamEv c s e).mos[i]? = some (sim1 (adamUpdate c) i (p, b) e).2 := by
  cases e with
  | backward j g =>
    by_cases hj : j = i
    · subst hj; simp [adamEv, sim1, getElem?_modifyAt, hp, hb]
    · have hj' : ¬ i = j := fun h => hj h.symm
      simp [adamEv, sim1, getElem?_modifyAt, hp, hb, hj, hj']
  | zeroGrad => simp [adamEv, sim1, hp, hb]
  | setRg j r =>
    by_cases hj : j = i
    · subst hj; simp [adamEv, sim1, getElem?_modifyAt, hp, hb]
    · have hj' : ¬ i = j := fun h => hj h.symm
      simp [adamEv, sim1, getElem?_modifyAt, hp, hb, hj, hj']
  | step =>
    simp only [adamEv, sim1, List.getElem?_map]
    rw [getElem?_zipWith_some _ _ _ _ _ _ hp hb, adamStepP_eq]
    simp

theorem adamRun_sim (c : AdamCfg α) (evs : List (Ev α)) (s : AdamState α) (i : Nat) (p : P α)
    (b : Moments α) (hp : s.ps[i]? = some p) (hb : s.mos[i]? = some b) :
    (adamRun c s evs).ps[i]? = some (evs.foldl (sim1 (adamUpdate c) i) (p, b)).1 ∧
    (adamRun c s evs).mos[i]? = some (evs.foldl (sim1 (adamUpdate c) i) (p, b)).2 := by
  induction evs generalizing s p b with
  | nil => exact ⟨hp, hb⟩
  | cons e es ih =>
    obtain ⟨h1, h2⟩ := adamEv_sim c s i p b hp hb e
    exact ih (adamEv c s e) _ _ h1 h2

/-- the one-parameter simulation is the fold of the update over the effective gradients -/
theorem sim1_fold (upd : α → α → β → α × β) (i : Nat) (evs : List (Ev α)) (p : P α) (b : β) :
    ((evs.foldl (sim1 upd i) (p, b)).1.θ, (evs.foldl (sim1 upd i) (p, b)).2)
      = (effGrads i p.rg p.grad evs).foldl (fun st g => upd st.1 g st.2) (p.θ, b) := by
  induction evs generalizing p b with
  | nil => rfl
  | cons e es ih =>
    rw [List.foldl_cons]
    cases e with
    | backward j g =>
      simp only [sim1, effGrads]
      rw [ih]
      by_cases hj : j = i
      · cases hr : p.rg <;> simp [hj, accumulate, hr]
      · simp [hj]
    | zeroGrad =>
      simp only [sim1, effGrads]
      rw [ih]
      cases hr : p.rg <;> simp [zeroP, hr]
    | setRg j r =>
      simp only [sim1, effGrads]
      rw [ih]
      by_cases hj : j = i <;> simp [hj]
    | step =>
      simp only [sim1, effGrads]
      cases hr : p.rg
      · have : stepP upd p b = (p, b) := by simp [stepP, hr]
        rw [this, ih, hr]
      · cases hg : p.grad with
        | none =>
          have : stepP upd p b = (p, b) := by simp [stepP, hr, hg]
          rw [this, ih, hr, hg]
        | some g =>
          have : stepP upd p b = ({ p with θ := (upd p.θ g b).1 }, (upd p.θ g b).2) := by
            simp [stepP, hr, hg]
          rw [this, ih]
          simp [hr, hg]

end Helpers


theorem sgdInit_bufs (ps : List (P α)) (i : Nat) (p : P α) (hp : ps[i]? = some p) :
    (sgdInit ps).bufs[i]? = some none := by
  simp only [sgdInit, List.getElem?_map, hp, Option.map_some]

theorem adamInit_mos (ps : List (P α)) (i : Nat) (p : P α) (hp : ps[i]? = some p) :
    (adamInit ps).mos[i]? = some ⟨0, 0, 0⟩ := by
  simp only [adamInit, List.getElem?_map, hp, Option.map_some]

/-- the trajectory of parameter `i` under SGD is the fold of `sgdUpdate` over its effective
    gradients -/
theorem sgd_theta (c : SGDCfg α) (ps : List (P α)) (evs : List (Ev α)) (i : Nat) (p : P α)
    (hp : ps[i]? = some p) :
    ∃ q, (sgdRun c (sgdInit ps) evs).ps[i]? = some q ∧
      q.θ = ((effGrads i p.rg p.grad evs).foldl (fun st g => sgdUpdate c st.1 g st.2)
        (p.θ, none)).1 := by
  obtain ⟨h1, _⟩ := sgdRun_sim c evs (sgdInit ps) i p none hp (sgdInit_bufs ps i p hp)
  exact ⟨_, h1, congrArg Prod.fst (sim1_fold (sgdUpdate c) i evs p none)⟩

theorem adam_theta (c : AdamCfg α) (ps : List (P α)) (evs : List (Ev α)) (i : Nat) (p : P α)
    (hp : ps[i]? = some p) :
    ∃ q, (adamRun c (adamInit ps) evs).ps[i]? = some q ∧
      q.θ = ((effGrads i p.rg p.grad evs).foldl (fun st g => adamUpdate c st.1 g st.2)
        (p.θ, ⟨0, 0, 0⟩)).1 := by
  obtain ⟨h1, _⟩ := adamRun_sim c evs (adamInit ps) i p ⟨0, 0, 0⟩ hp (adamInit_mos ps i p hp)
  exact ⟨_, h1, congrArg Prod.fst (sim1_fold (adamUpdate c) i evs p ⟨0, 0, 0⟩)⟩

theorem sgdUpdate_eq_spec (c : SGDCfg α) (hc : SGDCfg.Consistent c) (hm : c.useMom = true) :
    (fun (st : α × Option α) g => sgdUpdate c st.1 g st.2)
      = sgdSpecStep c.lr c.momentum c.dampening c.weightDecay c.nesterov c.maximize := by
  funext st g
  obtain ⟨θ, b⟩ := st
  unfold sgdUpdate sgdSpecStep
  cases hw : c.useWd
  · have := hc.1 hw
    simp [hm, this]
  · simp [hm]

theorem sgdUpdate_plain (c : SGDCfg α) (hc : SGDCfg.Consistent c) (hm : c.useMom = false)
    (θ g : α) (b : Option α) :
    sgdUpdate c θ g b = (sgdSpecStepPlain c.lr c.weightDecay c.maximize θ g, b) := by
  unfold sgdUpdate sgdSpecStepPlain
  cases hw : c.useWd
  · have := hc.1 hw
    simp [hm, this]
  · simp [hm]

theorem sgd_plain_fold (c : SGDCfg α) (hc : SGDCfg.Consistent c) (hm : c.useMom = false)
    (gs : List α) (θ : α) (b : Option α) :
    (gs.foldl (fun (st : α × Option α) g => sgdUpdate c st.1 g st.2) (θ, b)).1
      = gs.foldl (sgdSpecStepPlain c.lr c.weightDecay c.maximize) θ := by
  induction gs generalizing θ with
  | nil => rfl
  | cons g gs ih =>
    simp only [List.foldl_cons]
    rw [sgdUpdate_plain c hc hm, ih]

theorem adamUpdate_eq_spec (c : AdamCfg α) (hc : c.useWd = false → c.weightDecay = 0) :
    (fun (st : α × Moments α) g => adamUpdate c st.1 g st.2) = adamSpecStep c := by
  funext st g
  obtain ⟨θ, mo⟩ := st
  unfold adamUpdate adamSpecStep
  cases hx : c.maximize <;> cases hd : c.decoupled <;> cases hw : c.useWd <;>
    first
    | (have := hc hw; simp [this, pow_two])
    | simp [pow_two]

/-- **SGD with momentum follows the documented recursion** on the effective gradients, for each
    parameter independently of all the others. -/
theorem sgd_refines (c : SGDCfg α) (hc : SGDCfg.Consistent c) (hm : c.useMom = true)
    (ps : List (P α)) (evs : List (Ev α)) (i : Nat) (p : P α) (hp : ps[i]? = some p) :
    ∃ q, (sgdRun c (sgdInit ps) evs).ps[i]? = some q ∧
      q.θ = ((effGrads i p.rg p.grad evs).foldl
        (sgdSpecStep c.lr c.momentum c.dampening c.weightDecay c.nesterov c.maximize) (p.θ, none)).1 := by
  rw [← sgdUpdate_eq_spec c hc hm]
  exact sgd_theta c ps evs i p hp

/-- **Plain SGD** (momentum = 0). -/
theorem sgd_plain_refines (c : SGDCfg α) (hc : SGDCfg.Consistent c) (hm : c.useMom = false)
    (ps : List (P α)) (evs : List (Ev α)) (i : Nat) (p : P α) (hp : ps[i]? = some p) :
    ∃ q, (sgdRun c (sgdInit ps) evs).ps[i]? = some q ∧
      q.θ = (effGrads i p.rg p.grad evs).foldl (sgdSpecStepPlain c.lr c.weightDecay c.maximize) p.θ := by
  rw [← sgd_plain_fold c hc hm _ p.θ none]
  exact sgd_theta c ps evs i p hp

/-- **Adam / AdamW follow the documented recursion**, with the bias-correction exponent counting
    the updates applied to that parameter. -/
theorem adam_refines (c : AdamCfg α) (hc : c.useWd = false → c.weightDecay = 0)
    (ps : List (P α)) (evs : List (Ev α)) (i : Nat) (p : P α) (hp : ps[i]? = some p) :
    ∃ q, (adamRun c (adamInit ps) evs).ps[i]? = some q ∧
      q.θ = ((effGrads i p.rg p.grad evs).foldl (adamSpecStep c) (p.θ, ⟨0, 0, 0⟩)).1 := by
  rw [← adamUpdate_eq_spec c hc]
  exact adam_theta c ps evs i p hp

/-- a history never unfreezes parameter `i` -/
def NeverUnfrozen (i : Nat) : List (Ev α) → Prop
  | [] => True
  | .setRg j b :: es => ¬ (j = i ∧ b = true) ∧ NeverUnfrozen i es
  | _ :: es => NeverUnfrozen i es

theorem effGrads_frozen (i : Nat) (g0 : Option α) (evs : List (Ev α)) (h : NeverUnfrozen i evs) :
    effGrads i false g0 evs = [] := by
  induction evs generalizing g0 with
  | nil => rfl
  | cons e es ih =>
    cases e with
    | backward j g => simpa [effGrads] using ih g0 h
    | zeroGrad => simpa [effGrads] using ih g0 h
    | step => simpa [effGrads] using ih g0 h
    | setRg j b =>
      obtain ⟨h1, h2⟩ := h
      by_cases hj : j = i
      · have hb : b = false := by
          cases b
          · rfl
          · exact absurd ⟨hj, rfl⟩ h1
        simpa [effGrads, hj, hb] using ih g0 h2
      · simpa [effGrads, hj] using ih g0 h2

/-- **Frozen parameters stay fixed** (weight decay included) under SGD ... -/
theorem frozen_fixed_sgd (c : SGDCfg α) (ps : List (P α)) (evs : List (Ev α)) (i : Nat) (p : P α)
    (hp : ps[i]? = some p) (hfrozen : p.rg = false) (h : NeverUnfrozen i evs) :
    ∃ q, (sgdRun c (sgdInit ps) evs).ps[i]? = some q ∧ q.θ = p.θ := by
  obtain ⟨q, hq, hθ⟩ := sgd_theta c ps evs i p hp
  refine ⟨q, hq, ?_⟩
  rw [hθ, hfrozen, effGrads_frozen i p.grad evs h]
  rfl

/-- ... and under Adam / AdamW. -/
theorem frozen_fixed_adam (c : AdamCfg α) (ps : List (P α)) (evs : List (Ev α)) (i : Nat) (p : P α)
    (hp : ps[i]? = some p) (hfrozen : p.rg = false) (h : NeverUnfrozen i evs) :
    ∃ q, (adamRun c (adamInit ps) evs).ps[i]? = some q ∧ q.θ = p.θ := by
  obtain ⟨q, hq, hθ⟩ := adam_theta c ps evs i p hp
  refine ⟨q, hq, ?_⟩
  rw [hθ, hfrozen, effGrads_frozen i p.grad evs h]
  rfl

/-- the events that mention parameter `j` only -/
def dropOther (i : Nat) : List (Ev α) → List (Ev α)
  | [] => []
  | .backward j g :: es => if j = i then .backward j g :: dropOther i es else dropOther i es
  | .setRg j b :: es => if j = i then .setRg j b :: dropOther i es else dropOther i es
  | e :: es => e :: dropOther i es

theorem sim1_dropOther {β : Type} (upd : α → α → β → α × β) (i : Nat) (evs : List (Ev α))
    (st : P α × β) :
    (dropOther i evs).foldl (sim1 upd i) st = evs.foldl (sim1 upd i) st := by
  induction evs generalizing st with
  | nil => rfl
  | cons e es ih =>
    cases e with
    | backward j g => by_cases hj : j = i <;> simp [dropOther, sim1, hj, ih]
    | zeroGrad => simp [dropOther, ih]
    | setRg j r => by_cases hj : j = i <;> simp [dropOther, sim1, hj, ih]
    | step => simp [dropOther, ih]

/-- **Only the given parameter is touched by its own gradients**: deleting every event that
    concerns other parameters leaves the trajectory of parameter `i` unchanged. -/
theorem params_independent_sgd (c : SGDCfg α) (ps : List (P α)) (evs : List (Ev α)) (i : Nat) :
    ((sgdRun c (sgdInit ps) evs).ps[i]?).map (·.θ)
      = ((sgdRun c (sgdInit ps) (dropOther i evs)).ps[i]?).map (·.θ) := by
  cases hp : ps[i]? with
  | none =>
    rw [sgdRun_none c evs (sgdInit ps) i hp, sgdRun_none c (dropOther i evs) (sgdInit ps) i hp]
  | some p =>
    have hb := sgdInit_bufs ps i p hp
    rw [(sgdRun_sim c evs (sgdInit ps) i p none hp hb).1,
      (sgdRun_sim c (dropOther i evs) (sgdInit ps) i p none hp hb).1, sim1_dropOther]

/-- the number of parameters never changes -/
theorem sgd_length (c : SGDCfg α) (ps : List (P α)) (evs : List (Ev α)) :
    (sgdRun c (sgdInit ps) evs).ps.length = ps.length := by
  have key : ∀ (evs : List (Ev α)) (s : SGDState α), s.bufs.length = s.ps.length →
      (sgdRun c s evs).ps.length = s.ps.length := by
    intro evs
    induction evs with
    | nil => intro s _; rfl
    | cons e es ih =>
      intro s hs
      have h1 : (sgdEv c s e).ps.length = s.ps.length ∧ (sgdEv c s e).bufs.length = s.ps.length := by
        cases e <;> simp [sgdEv, length_modifyAt, hs]
      show (sgdRun c (sgdEv c s e) es).ps.length = s.ps.length
      rw [ih (sgdEv c s e) (h1.2.trans h1.1.symm), h1.1]
  simpa [sgdInit] using key evs (sgdInit ps) (by simp [sgdInit])

/-- closed form of plain SGD without weight decay: θ_n = θ_0 − lr · Σ g_k -/
theorem sgd_plain_closed (lr : α) (θ : α) (gs : List α) :
    gs.foldl (sgdSpecStepPlain lr 0 false) θ = θ - lr * gs.sum := by
  induction gs generalizing θ with
  | nil => simp
  | cons g gs ih =>
    rw [List.foldl_cons, ih, List.sum_cons]
    simp only [sgdSpecStepPlain]
    simp
    ring

/-! ### Non-vacuity: a concrete history over ℚ-like arithmetic is exercised by the driver; here a
    symbolic instance: two steps of plain SGD -/
example (lr θ g1 g2 : α) :
    [g1, g2].foldl (sgdSpecStepPlain lr 0 false) θ = θ - lr * (g1 + g2) := by
  simp [sgdSpecStepPlain]; ring

end Props.C08
