import SynapModel.Optim
import SynapModel.OptimStore
import Proofs.OptimStoreRefine
import Proofs.OptimStoreShape
import Proofs.OptimStoreRefineAdam
import Proofs.OptimStepTie
import Mathlib.Algebra.Field.Basic
import Mathlib.Tactic.Ring
import Mathlib.Algebra.BigOperators.Group.Finset.Basic
/-!
# C08 — Optimizers follow the published SGD/Adam/AdamW update rules on any history

Statements about `Synap.Optim` (the model of synapgrad/optim/optimizers.py) over an arbitrary
field `α` with an arbitrary square-root function, for every hyper-parameter setting, every number
of parameters and every finite history over {backward, zero_grad, step, freeze/unfreeze}.
-/
namespace Props.C08
open Synap.Optim

variable {α : Type} [Field α] [HasSqrt α]

-- statements about SGD do not use the square root; keep one `variable` line for the whole file
set_option linter.unusedSectionVars false

/-- the configuration flags agree with the values they are computed from (`x != 0`) -/
def SGDCfg.Consistent (c : SGDCfg α) : Prop :=
  (c.useWd = false → c.weightDecay = 0) ∧ (c.useMom = false → c.momentum = 0)

/-- documented Adam / AdamW recursion for one parameter: state = (θ, m, v, t) -/
def adamSpecStep (c : AdamCfg α) (st : α × Moments α) (g : α) : α × Moments α :=
  let θ := st.1
  let t := st.2.t + 1
  let g := if c.maximize then -g else g
  let θ := if c.decoupled then θ - c.lr * c.weightDecay * θ else θ
  let g := if c.decoupled then g else g + c.weightDecay * θ
  let m := c.beta1 * st.2.m1 + (1 - c.beta1) * g
  let v := c.beta2 * st.2.m2 + (1 - c.beta2) * g ^ 2
  let mh := m / (1 - c.beta1 ^ t)
  let vh := v / (1 - c.beta2 ^ t)
  (θ - c.lr * mh / (HasSqrt.sqrt vh + c.eps), ⟨m, v, t⟩)


/-! ### Helper machinery: one-parameter simulation -/
section Helpers
variable {β : Type}

theorem getElem?_modifyAt {γ : Type} (l : List γ) (i : Nat) (f : γ → γ) (k : Nat) :
    (modifyAt l i f)[k]? = (l[k]?).map (fun x => if k = i then f x else x) := by
  unfold modifyAt
  rw [List.getElem?_map, List.getElem?_zipIdx]
  cases l[k]? <;> simp

theorem length_modifyAt {γ : Type} (l : List γ) (i : Nat) (f : γ → γ) :
    (modifyAt l i f).length = l.length := by
  simp [modifyAt]

/-- generic `step` of one parameter, for an update `upd θ g b` with per-parameter state `β` -/
def stepP (upd : α → α → β → α × β) (p : P α) (b : β) : P α × β :=
  match p.rg, p.grad with
  | true, some g => ({ p with θ := (upd p.θ g b).1 }, (upd p.θ g b).2)
  | _, _ => (p, b)

/-- what one event does to parameter `i` and its optimizer state -/
def sim1 (upd : α → α → β → α × β) (i : Nat) (st : P α × β) : Ev α → P α × β
  | .backward j g => (if j = i then accumulate st.1 g else st.1, st.2)
  | .zeroGrad => (zeroP st.1, st.2)
  | .setRg j b => (if j = i then { st.1 with rg := b } else st.1, st.2)
  | .step => stepP upd st.1 st.2

theorem sgdStepP_eq (c : SGDCfg α) (p : P α) (b : Option α) :
    sgdStepP c p b = stepP (sgdUpdate c) p b := by
  unfold sgdStepP stepP
  split <;> simp_all

theorem adamStepP_eq (c : AdamCfg α) (p : P α) (b : Moments α) :
    adamStepP c p b = stepP (adamUpdate c) p b := by
  unfold adamStepP stepP
  split <;> simp_all

theorem getElem?_zipWith_some {γ δ ε : Type} (f : γ → δ → ε) (l₁ : List γ) (l₂ : List δ) (i : Nat)
    (a : γ) (b : δ) (h₁ : l₁[i]? = some a) (h₂ : l₂[i]? = some b) :
    (List.zipWith f l₁ l₂)[i]? = some (f a b) := by
  rw [List.getElem?_zipWith, h₁, h₂]

theorem getElem?_zipWith_none {γ δ ε : Type} (f : γ → δ → ε) (l₁ : List γ) (l₂ : List δ) (i : Nat)
    (h₁ : l₁[i]? = none) :
    (List.zipWith f l₁ l₂)[i]? = none := by
  rw [List.getElem?_zipWith, h₁]

/-- one SGD event acts on parameter `i` as `sim1` -/
theorem sgdEv_sim (c : SGDCfg α) (s : SGDState α) (i : Nat) (p : P α) (b : Option α)
    (hp : s.ps[i]? = some p) (hb : s.bufs[i]? = some b) (e : Ev α) :
    (sgdEv c s e).ps[i]? = some (sim1 (sgdUpdate c) i (p, b) e).1 ∧
    (sgdEv c s e).bufs[i]? = some (sim1 (sgdUpdate c) i (p, b) e).2 := by
  cases e with
  | backward j g =>
    by_cases hj : j = i
    · subst hj; simp [sgdEv, sim1, getElem?_modifyAt, hp, hb]
    · have hj' : ¬ i = j := fun h => hj h.symm
      simp [sgdEv, sim1, getElem?_modifyAt, hp, hb, hj, hj']
  | zeroGrad => simp [sgdEv, sim1, hp, hb]
  | setRg j r =>
    by_cases hj : j = i
    · subst hj; simp [sgdEv, sim1, getElem?_modifyAt, hp, hb]
    · have hj' : ¬ i = j := fun h => hj h.symm
      simp [sgdEv, sim1, getElem?_modifyAt, hp, hb, hj, hj']
  | step =>
    simp only [sgdEv, sim1, List.getElem?_map]
    rw [getElem?_zipWith_some _ _ _ _ _ _ hp hb, sgdStepP_eq]
    simp

theorem sgdRun_sim (c : SGDCfg α) (evs : List (Ev α)) (s : SGDState α) (i : Nat) (p : P α)
    (b : Option α) (hp : s.ps[i]? = some p) (hb : s.bufs[i]? = some b) :
    (sgdRun c s evs).ps[i]? = some (evs.foldl (sim1 (sgdUpdate c) i) (p, b)).1 ∧
    (sgdRun c s evs).bufs[i]? = some (evs.foldl (sim1 (sgdUpdate c) i) (p, b)).2 := by
  induction evs generalizing s p b with
  | nil => exact ⟨hp, hb⟩
  | cons e es ih =>
    obtain ⟨h1, h2⟩ := sgdEv_sim c s i p b hp hb e
    exact ih (sgdEv c s e) _ _ h1 h2

theorem sgdEv_none (c : SGDCfg α) (s : SGDState α) (i : Nat) (hp : s.ps[i]? = none) (e : Ev α) :
    (sgdEv c s e).ps[i]? = none := by
  cases e with
  | backward j g => simp [sgdEv, getElem?_modifyAt, hp]
  | zeroGrad => simp [sgdEv, hp]
  | setRg j r => simp [sgdEv, getElem?_modifyAt, hp]
  | step =>
    simp only [sgdEv, List.getElem?_map]
    rw [getElem?_zipWith_none _ _ _ _ hp]
    rfl

theorem sgdRun_none (c : SGDCfg α) (evs : List (Ev α)) (s : SGDState α) (i : Nat)
    (hp : s.ps[i]? = none) : (sgdRun c s evs).ps[i]? = none := by
  induction evs generalizing s with
  | nil => exact hp
  | cons e es ih => exact ih (sgdEv c s e) (sgdEv_none c s i hp e)

/-- one Adam event acts on parameter `i` as `sim1` -/
theorem adamEv_sim (c : AdamCfg α) (s : AdamState α) (i : Nat) (p : P α) (b : Moments α)
    (hp : s.ps[i]? = some p) (hb : s.mos[i]? = some b) (e : Ev α) :
    (adamEv c s e).ps[i]? = some (sim1 (adamUpdate c) i (p, b) e).1 ∧
    (adamEv c s e).mos[i]? = some (sim1 (adamUpdate c) i (p, b) e).2 := by
  cases e with
  | backward j g =>
    by_cases hj : j = i
    · subst hj; simp [adamEv, sim1, getElem?_modifyAt, hp, hb]
    · have hj' : ¬ i = j := fun h => hj h.symm
      simp [adamEv, sim1, getElem?_modifyAt, hp, hb, hj, hj']
  | zeroGrad => simp [adamEv, sim1, hp, hb]
  | setRg j r =>
    by_cases hj : j = i
    · subst hj; simp [adamEv, sim1, getElem?_modifyAt, hp, hb]
    · have hj' : ¬ i = j := fun h => hj h.symm
      simp [adamEv, sim1, getElem?_modifyAt, hp, hb, hj, hj']
  | step =>
    simp only [adamEv, sim1, List.getElem?_map]
    rw [getElem?_zipWith_some _ _ _ _ _ _ hp hb, adamStepP_eq]
    simp

theorem adamRun_sim (c : AdamCfg α) (evs : List (Ev α)) (s : AdamState α) (i : Nat) (p : P α)
    (b : Moments α) (hp : s.ps[i]? = some p) (hb : s.mos[i]? = some b) :
    (adamRun c s evs).ps[i]? = some (evs.foldl (sim1 (adamUpdate c) i) (p, b)).1 ∧
    (adamRun c s evs).mos[i]? = some (evs.foldl (sim1 (adamUpdate c) i) (p, b)).2 := by
  induction evs generalizing s p b with
  | nil => exact ⟨hp, hb⟩
  | cons e es ih =>
    obtain ⟨h1, h2⟩ := adamEv_sim c s i p b hp hb e
    exact ih (adamEv c s e) _ _ h1 h2

/-- the one-parameter simulation is the fold of the update over the effective gradients -/
theorem sim1_fold (upd : α → α → β → α × β) (i : Nat) (evs : List (Ev α)) (p : P α) (b : β) :
    ((evs.foldl (sim1 upd i) (p, b)).1.θ, (evs.foldl (sim1 upd i) (p, b)).2)
      = (effGrads i p.rg p.grad evs).foldl (fun st g => upd st.1 g st.2) (p.θ, b) := by
  induction evs generalizing p b with
  | nil => rfl
  | cons e es ih =>
    rw [List.foldl_cons]
    cases e with
    | backward j g =>
      simp only [sim1, effGrads]
      rw [ih]
      by_cases hj : j = i
      · cases hr : p.rg <;> simp [hj, accumulate, hr]
      · simp [hj]
    | zeroGrad =>
      simp only [sim1, effGrads]
      rw [ih]
      cases hr : p.rg <;> simp [zeroP, hr]
    | setRg j r =>
      simp only [sim1, effGrads]
      rw [ih]
      by_cases hj : j = i <;> simp [hj]
    | step =>
      simp only [sim1, effGrads]
      cases hr : p.rg
      · have : stepP upd p b = (p, b) := by simp [stepP, hr]
        rw [this, ih, hr]
      · cases hg : p.grad with
        | none =>
          have : stepP upd p b = (p, b) := by simp [stepP, hr, hg]
          rw [this, ih, hr, hg]
        | some g =>
          have : stepP upd p b = ({ p with θ := (upd p.θ g b).1 }, (upd p.θ g b).2) := by
            simp [stepP, hr, hg]
          rw [this, ih]
          simp [hr, hg]

end Helpers


theorem sgdInit_bufs (ps : List (P α)) (i : Nat) (p : P α) (hp : ps[i]? = some p) :
    (sgdInit ps).bufs[i]? = some none := by
  simp only [sgdInit, List.getElem?_map, hp, Option.map_some]

theorem adamInit_mos (ps : List (P α)) (i : Nat) (p : P α) (hp : ps[i]? = some p) :
    (adamInit ps).mos[i]? = some ⟨0, 0, 0⟩ := by
  simp only [adamInit, List.getElem?_map, hp, Option.map_some]

/-- the trajectory of parameter `i` under SGD is the fold of `sgdUpdate` over its effective
    gradients -/
theorem sgd_theta (c : SGDCfg α) (ps : List (P α)) (evs : List (Ev α)) (i : Nat) (p : P α)
    (hp : ps[i]? = some p) :
    ∃ q, (sgdRun c (sgdInit ps) evs).ps[i]? = some q ∧
      q.θ = ((effGrads i p.rg p.grad evs).foldl (fun st g => sgdUpdate c st.1 g st.2)
        (p.θ, none)).1 := by
  obtain ⟨h1, _⟩ := sgdRun_sim c evs (sgdInit ps) i p none hp (sgdInit_bufs ps i p hp)
  exact ⟨_, h1, congrArg Prod.fst (sim1_fold (sgdUpdate c) i evs p none)⟩

theorem adam_theta (c : AdamCfg α) (ps : List (P α)) (evs : List (Ev α)) (i : Nat) (p : P α)
    (hp : ps[i]? = some p) :
    ∃ q, (adamRun c (adamInit ps) evs).ps[i]? = some q ∧
      q.θ = ((effGrads i p.rg p.grad evs).foldl (fun st g => adamUpdate c st.1 g st.2)
        (p.θ, ⟨0, 0, 0⟩)).1 := by
  obtain ⟨h1, _⟩ := adamRun_sim c evs (adamInit ps) i p ⟨0, 0, 0⟩ hp (adamInit_mos ps i p hp)
  exact ⟨_, h1, congrArg Prod.fst (sim1_fold (adamUpdate c) i evs p ⟨0, 0, 0⟩)⟩

theorem sgdUpdate_eq_spec (c : SGDCfg α) (hc : SGDCfg.Consistent c) (hm : c.useMom = true) :
    (fun (st : α × Option α) g => sgdUpdate c st.1 g st.2)
      = sgdSpecStep c.lr c.momentum c.dampening c.weightDecay c.nesterov c.maximize := by
  funext st g
  obtain ⟨θ, b⟩ := st
  unfold sgdUpdate sgdSpecStep
  cases hw : c.useWd
  · have := hc.1 hw
    simp [hm, this]
  · simp [hm]

theorem sgdUpdate_plain (c : SGDCfg α) (hc : SGDCfg.Consistent c) (hm : c.useMom = false)
    (θ g : α) (b : Option α) :
    sgdUpdate c θ g b = (sgdSpecStepPlain c.lr c.weightDecay c.maximize θ g, b) := by
  unfold sgdUpdate sgdSpecStepPlain
  cases hw : c.useWd
  · have := hc.1 hw
    simp [hm, this]
  · simp [hm]

theorem sgd_plain_fold (c : SGDCfg α) (hc : SGDCfg.Consistent c) (hm : c.useMom = false)
    (gs : List α) (θ : α) (b : Option α) :
    (gs.foldl (fun (st : α × Option α) g => sgdUpdate c st.1 g st.2) (θ, b)).1
      = gs.foldl (sgdSpecStepPlain c.lr c.weightDecay c.maximize) θ := by
  induction gs generalizing θ with
  | nil => rfl
  | cons g gs ih =>
    simp only [List.foldl_cons]
    rw [sgdUpdate_plain c hc hm, ih]

theorem adamUpdate_eq_spec (c : AdamCfg α) (hc : c.useWd = false → c.weightDecay = 0) :
    (fun (st : α × Moments α) g => adamUpdate c st.1 g st.2) = adamSpecStep c := by
  funext st g
  obtain ⟨θ, mo⟩ := st
  unfold adamUpdate adamSpecStep
  cases hx : c.maximize <;> cases hd : c.decoupled <;> cases hw : c.useWd <;>
    first
    | (have := hc hw; simp [this, pow_two])
    | simp [pow_two]

/-- **SGD with momentum follows the documented recursion** on the effective gradients, for each
    parameter independently of all the others. -/
theorem sgd_refines (c : SGDCfg α) (hc : SGDCfg.Consistent c) (hm : c.useMom = true)
    (ps : List (P α)) (evs : List (Ev α)) (i : Nat) (p : P α) (hp : ps[i]? = some p) :
    ∃ q, (sgdRun c (sgdInit ps) evs).ps[i]? = some q ∧
      q.θ = ((effGrads i p.rg p.grad evs).foldl
        (sgdSpecStep c.lr c.momentum c.dampening c.weightDecay c.nesterov c.maximize) (p.θ, none)).1 := by
  rw [← sgdUpdate_eq_spec c hc hm]
  exact sgd_theta c ps evs i p hp

/-- **Plain SGD** (momentum = 0). -/
theorem sgd_plain_refines (c : SGDCfg α) (hc : SGDCfg.Consistent c) (hm : c.useMom = false)
    (ps : List (P α)) (evs : List (Ev α)) (i : Nat) (p : P α) (hp : ps[i]? = some p) :
    ∃ q, (sgdRun c (sgdInit ps) evs).ps[i]? = some q ∧
      q.θ = (effGrads i p.rg p.grad evs).foldl (sgdSpecStepPlain c.lr c.weightDecay c.maximize) p.θ := by
  rw [← sgd_plain_fold c hc hm _ p.θ none]
  exact sgd_theta c ps evs i p hp

/-- **Adam / AdamW follow the documented recursion**, with the bias-correction exponent counting
    the updates applied to that parameter. -/
theorem adam_refines (c : AdamCfg α) (hc : c.useWd = false → c.weightDecay = 0)
    (ps : List (P α)) (evs : List (Ev α)) (i : Nat) (p : P α) (hp : ps[i]? = some p) :
    ∃ q, (adamRun c (adamInit ps) evs).ps[i]? = some q ∧
      q.θ = ((effGrads i p.rg p.grad evs).foldl (adamSpecStep c) (p.θ, ⟨0, 0, 0⟩)).1 := by
  rw [← adamUpdate_eq_spec c hc]
  exact adam_theta c ps evs i p hp

/-- a history never unfreezes parameter `i` -/
def NeverUnfrozen (i : Nat) : List (Ev α) → Prop
  | [] => True
  | .setRg j b :: es => ¬ (j = i ∧ b = true) ∧ NeverUnfrozen i es
  | _ :: es => NeverUnfrozen i es

theorem effGrads_frozen (i : Nat) (g0 : Option α) (evs : List (Ev α)) (h : NeverUnfrozen i evs) :
    effGrads i false g0 evs = [] := by
  induction evs generalizing g0 with
  | nil => rfl
  | cons e es ih =>
    cases e with
    | backward j g => simpa [effGrads] using ih g0 h
    | zeroGrad => simpa [effGrads] using ih g0 h
    | step => simpa [effGrads] using ih g0 h
    | setRg j b =>
      obtain ⟨h1, h2⟩ := h
      by_cases hj : j = i
      · have hb : b = false := by
          cases b
          · rfl
          · exact absurd ⟨hj, rfl⟩ h1
        simpa [effGrads, hj, hb] using ih g0 h2
      · simpa [effGrads, hj] using ih g0 h2

/-- **Frozen parameters stay fixed** (weight decay included) under SGD ... -/
theorem frozen_fixed_sgd (c : SGDCfg α) (ps : List (P α)) (evs : List (Ev α)) (i : Nat) (p : P α)
    (hp : ps[i]? = some p) (hfrozen : p.rg = false) (h : NeverUnfrozen i evs) :
    ∃ q, (sgdRun c (sgdInit ps) evs).ps[i]? = some q ∧ q.θ = p.θ := by
  obtain ⟨q, hq, hθ⟩ := sgd_theta c ps evs i p hp
  refine ⟨q, hq, ?_⟩
  rw [hθ, hfrozen, effGrads_frozen i p.grad evs h]
  rfl

/-- ... and under Adam / AdamW. -/
theorem frozen_fixed_adam (c : AdamCfg α) (ps : List (P α)) (evs : List (Ev α)) (i : Nat) (p : P α)
    (hp : ps[i]? = some p) (hfrozen : p.rg = false) (h : NeverUnfrozen i evs) :
    ∃ q, (adamRun c (adamInit ps) evs).ps[i]? = some q ∧ q.θ = p.θ := by
  obtain ⟨q, hq, hθ⟩ := adam_theta c ps evs i p hp
  refine ⟨q, hq, ?_⟩
  rw [hθ, hfrozen, effGrads_frozen i p.grad evs h]
  rfl

/-- the events that mention parameter `j` only -/
def dropOther (i : Nat) : List (Ev α) → List (Ev α)
  | [] => []
  | .backward j g :: es => if j = i then .backward j g :: dropOther i es else dropOther i es
  | .setRg j b :: es => if j = i then .setRg j b :: dropOther i es else dropOther i es
  | e :: es => e :: dropOther i es

theorem sim1_dropOther {β : Type} (upd : α → α → β → α × β) (i : Nat) (evs : List (Ev α))
    (st : P α × β) :
    (dropOther i evs).foldl (sim1 upd i) st = evs.foldl (sim1 upd i) st := by
  induction evs generalizing st with
  | nil => rfl
  | cons e es ih =>
    cases e with
    | backward j g => by_cases hj : j = i <;> simp [dropOther, sim1, hj, ih]
    | zeroGrad => simp [dropOther, ih]
    | setRg j r => by_cases hj : j = i <;> simp [dropOther, sim1, hj, ih]
    | step => simp [dropOther, ih]

/-- **Only the given parameter is touched by its own gradients**: deleting every event that
    concerns other parameters leaves the trajectory of parameter `i` unchanged. -/
theorem params_independent_sgd (c : SGDCfg α) (ps : List (P α)) (evs : List (Ev α)) (i : Nat) :
    ((sgdRun c (sgdInit ps) evs).ps[i]?).map (·.θ)
      = ((sgdRun c (sgdInit ps) (dropOther i evs)).ps[i]?).map (·.θ) := by
  cases hp : ps[i]? with
  | none =>
    rw [sgdRun_none c evs (sgdInit ps) i hp, sgdRun_none c (dropOther i evs) (sgdInit ps) i hp]
  | some p =>
    have hb := sgdInit_bufs ps i p hp
    rw [(sgdRun_sim c evs (sgdInit ps) i p none hp hb).1,
      (sgdRun_sim c (dropOther i evs) (sgdInit ps) i p none hp hb).1, sim1_dropOther]

/-- the number of parameters never changes -/
theorem sgd_length (c : SGDCfg α) (ps : List (P α)) (evs : List (Ev α)) :
    (sgdRun c (sgdInit ps) evs).ps.length = ps.length := by
  have key : ∀ (evs : List (Ev α)) (s : SGDState α), s.bufs.length = s.ps.length →
      (sgdRun c s evs).ps.length = s.ps.length := by
    intro evs
    induction evs with
    | nil => intro s _; rfl
    | cons e es ih =>
      intro s hs
      have h1 : (sgdEv c s e).ps.length = s.ps.length ∧ (sgdEv c s e).bufs.length = s.ps.length := by
        cases e <;> simp [sgdEv, length_modifyAt, hs]
      show (sgdRun c (sgdEv c s e) es).ps.length = s.ps.length
      rw [ih (sgdEv c s e) (h1.2.trans h1.1.symm), h1.1]
  simpa [sgdInit] using key evs (sgdInit ps) (by simp [sgdInit])

/-- closed form of plain SGD without weight decay: θ_n = θ_0 − lr · Σ g_k -/
theorem sgd_plain_closed (lr : α) (θ : α) (gs : List α) :
    gs.foldl (sgdSpecStepPlain lr 0 false) θ = θ - lr * gs.sum := by
  induction gs generalizing θ with
  | nil => simp
  | cons g gs ih =>
    rw [List.foldl_cons, ih, List.sum_cons]
    simp only [sgdSpecStepPlain]
    simp
    ring

/-! ### Non-vacuity: a concrete history over ℚ-like arithmetic is exercised by the driver; here a
    symbolic instance: two steps of plain SGD -/
example (lr θ g1 g2 : α) :
    [g1, g2].foldl (sgdSpecStepPlain lr 0 false) θ = θ - lr * (g1 + g2) := by
  simp [sgdSpecStepPlain]; ring

/-! ## The store model: buffers with identities (`Synap.OptimStore`)

`Synap.Optim` follows values; `Synap.OptimStore` follows *which array object* holds them: every
statement of optimizers.py / the backward closures is either allocating (fresh buffer) or in place.
The theorems below are about every reachable state of that model, for all hyper-parameters, all
numbers and shapes of parameters, all histories. -/
section Store
open Proofs.OptimStore
open Synap.OptimStore (Store slot rdBuf Role PS BufId)

/-- an event of the store model (gradients are whole arrays) -/
abbrev SEv (α : Type) := Synap.OptimStore.Ev α

/-- **Separation at every reachable state.**  From a state where every place (parameter data,
    gradient, momentum buffer / first moment, second moment) holds a buffer of the heap and no two
    places hold the same buffer, every history of SGD events and every history of Adam / AdamW
    events leads to such a state again. -/
theorem store_separation (s0 : Store α) (h0 : Inv s0) (evs : List (SEv α)) :
    (∀ c : SGDCfg α, Inv (Synap.OptimStore.sgdRun c s0 evs)) ∧
    (∀ c : AdamCfg α, Inv (Synap.OptimStore.adamRun c s0 evs)) :=
  ⟨fun c => (run_generic (Synap.OptimStore.sgdEv c) (fun s e h => sgdEv_moves c s h e) evs s0 h0).1,
   fun c => (run_generic (Synap.OptimStore.adamEv c) (fun s e h => adamEv_moves c s h e) evs s0 h0).1⟩

/-- the same in the words of the property: after any history two different places never hold the
    same buffer -/
theorem store_separation_pairwise (s0 : Store α) (h0 : Inv s0) (evs : List (SEv α)) (c : SGDCfg α)
    (ca : AdamCfg α) (r r' : Role) (i i' : Nat) (hne : ¬ (r = r' ∧ i = i')) :
    (∀ x, slot (Synap.OptimStore.sgdRun c s0 evs) r i = some x →
      slot (Synap.OptimStore.sgdRun c s0 evs) r' i' ≠ some x) ∧
    (∀ x, slot (Synap.OptimStore.adamRun ca s0 evs) r i = some x →
      slot (Synap.OptimStore.adamRun ca s0 evs) r' i' ≠ some x) :=
  ⟨fun x h h' => hne (((store_separation s0 h0 evs).1 c).sep r i r' i' x h h'),
   fun x h h' => hne (((store_separation s0 h0 evs).2 ca).sep r i r' i' x h h')⟩

/-- a freshly built model (parameter `i` holds buffer `i`, no gradients, a new optimizer) is separated -/
theorem store_separation_initial (arrs : List (List α)) (rgs : List Bool) (h : rgs.length ≤ arrs.length) :
    Inv (Synap.OptimStore.mk arrs rgs) := inv_mk arrs rgs h

/-- **Optimizer state is never corrupted by gradient accumulation.**  At a separated state (hence
    at every reachable state, `store_separation`), every place other than a gradient — parameter
    data, momentum buffers, Adam moments — keeps its buffer *and its content* across a backward
    call (in-place accumulation `x._grad += g`, or the leaf-root form), and across `zero_grad`. -/
theorem state_not_corrupted_by_accumulation {s : Store α} (hI : Inv s) {r : Role} {j : Nat} {x : BufId}
    (hr : r ≠ .grad) (hx : slot s r j = some x) :
    (∀ i g, slot (Synap.OptimStore.accumulate s i g) r j = some x ∧
        rdBuf (Synap.OptimStore.accumulate s i g).heap x = rdBuf s.heap x) ∧
    (∀ i g, slot (Synap.OptimStore.accumulateRoot s i g) r j = some x ∧
        rdBuf (Synap.OptimStore.accumulateRoot s i g).heap x = rdBuf s.heap x) ∧
    (slot (Synap.OptimStore.zeroGrad s) r j = some x ∧
        rdBuf (Synap.OptimStore.zeroGrad s).heap x = rdBuf s.heap x) :=
  ⟨fun i g => accumulate_keeps hI i g hr hx, fun i g => accumulateRoot_keeps hI i g hr hx,
   zeroGrad_keeps hI hr hx⟩

/-- ... spelled out at the reachable states of an SGD run and of an Adam / AdamW run -/
theorem state_not_corrupted_reachable (s0 : Store α) (h0 : Inv s0) (evs : List (SEv α))
    (c : SGDCfg α) (ca : AdamCfg α) (r : Role) (j : Nat) (x : BufId) (hr : r ≠ .grad) (i : Nat) (g : List α) :
    (slot (Synap.OptimStore.sgdRun c s0 evs) r j = some x →
      slot (Synap.OptimStore.sgdRun c s0 (evs ++ [.backward i g])) r j = some x ∧
      rdBuf (Synap.OptimStore.sgdRun c s0 (evs ++ [.backward i g])).heap x
        = rdBuf (Synap.OptimStore.sgdRun c s0 evs).heap x) ∧
    (slot (Synap.OptimStore.adamRun ca s0 evs) r j = some x →
      slot (Synap.OptimStore.adamRun ca s0 (evs ++ [.backward i g])) r j = some x ∧
      rdBuf (Synap.OptimStore.adamRun ca s0 (evs ++ [.backward i g])).heap x
        = rdBuf (Synap.OptimStore.adamRun ca s0 evs).heap x) := by
  constructor
  · intro hx
    simp only [Synap.OptimStore.sgdRun, List.foldl_append, List.foldl_cons, List.foldl_nil]
    exact accumulate_keeps ((store_separation s0 h0 evs).1 c) i g hr hx
  · intro hx
    simp only [Synap.OptimStore.adamRun, List.foldl_append, List.foldl_cons, List.foldl_nil]
    exact accumulate_keeps ((store_separation s0 h0 evs).2 ca) i g hr hx

/-- `zero_grad` installs new arrays and overwrites nothing: the arrays that were the gradients keep
    their content (whoever still holds them sees no change) -/
theorem zero_grad_overwrites_nothing {s : Store α} (hI : Inv s) {x : BufId} (hx : x < s.heap.length) :
    rdBuf (Synap.OptimStore.zeroGrad s).heap x = rdBuf s.heap x := zeroGrad_overwrites_nothing hI hx

/-- **A step changes no gradient buffer**: each parameter keeps its gradient array, with the same
    content, across `SGD.step` and `Adam.step` / `AdamW.step`. -/
theorem step_keeps_gradients {s : Store α} (hI : Inv s) {j : Nat} {x : BufId}
    (hx : slot s .grad j = some x) :
    (∀ c : SGDCfg α, slot (Synap.OptimStore.sgdStep c s) .grad j = some x ∧
        rdBuf (Synap.OptimStore.sgdStep c s).heap x = rdBuf s.heap x) ∧
    (∀ c : AdamCfg α, slot (Synap.OptimStore.adamStep c s) .grad j = some x ∧
        rdBuf (Synap.OptimStore.adamStep c s).heap x = rdBuf s.heap x) :=
  ⟨fun c => sgdStep_keeps_grads c hI hx, fun c => adamStep_keeps_grads c hI hx⟩

/-- **Updates are applied in place and touch nothing else.**  After any history (SGD; Adam/AdamW):
    (1) every parameter's data buffer id is the one it started with;
    (2) a buffer of the initial heap that no place holds — an array the optimizer was not given —
        keeps its content. -/
theorem updates_in_place (s0 : Store α) (h0 : Inv s0) (evs : List (SEv α)) :
    (∀ c : SGDCfg α,
      (∀ j, slot (Synap.OptimStore.sgdRun c s0 evs) .data j = slot s0 .data j) ∧
      (∀ x, x < s0.heap.length → (∀ r j, slot s0 r j ≠ some x) →
        rdBuf (Synap.OptimStore.sgdRun c s0 evs).heap x = rdBuf s0.heap x)) ∧
    (∀ c : AdamCfg α,
      (∀ j, slot (Synap.OptimStore.adamRun c s0 evs) .data j = slot s0 .data j) ∧
      (∀ x, x < s0.heap.length → (∀ r j, slot s0 r j ≠ some x) →
        rdBuf (Synap.OptimStore.adamRun c s0 evs).heap x = rdBuf s0.heap x)) := by
  constructor
  · intro c
    have h := run_generic (Synap.OptimStore.sgdEv c) (fun s e h => sgdEv_moves c s h e) evs s0 h0
    exact ⟨h.2.1, h.2.2.2⟩
  · intro c
    have h := run_generic (Synap.OptimStore.adamEv c) (fun s e h => adamEv_moves c s h e) evs s0 h0
    exact ⟨h.2.1, h.2.2.2⟩

/-- (3) a step leaves the data of a parameter that does not require grad, or that has no
    gradient, untouched — whatever the weight decay; its record (ids, flag) is never changed by a step -/
theorem step_keeps_frozen {s : Store α} (hI : Inv s) {j : Nat} {p : PS} (hp : s.ps[j]? = some p)
    (h : p.rg = false ∨ p.grad = none) :
    (∀ c : SGDCfg α, rdBuf (Synap.OptimStore.sgdStep c s).heap p.data = rdBuf s.heap p.data ∧
        (Synap.OptimStore.sgdStep c s).ps = s.ps) ∧
    (∀ c : AdamCfg α, rdBuf (Synap.OptimStore.adamStep c s).heap p.data = rdBuf s.heap p.data ∧
        (Synap.OptimStore.adamStep c s).ps = s.ps) :=
  ⟨fun c => ⟨sgdStep_keeps_inactive c hI hp h, (sgdStep_moves c s hI).2⟩,
   fun c => ⟨adamStep_keeps_inactive c hI hp h, (adamStep_moves c s hI).2⟩⟩

/-! ### The store model refines the value-level model, element by element -/

/-- the value-level event that element `k` sees -/
def evAt (k : Nat) : SEv α → Ev α
  | .backward i g => .backward i (g.getD k 0)
  | .backwardRoot i g => .backward i (g.getD k 0)
  | .zeroGrad => .zeroGrad
  | .step => .step
  | .setRg i b => .setRg i b

/-- every gradient array delivered to parameter `i` has an element `k` (shapes match) -/
def CoversEv (i k : Nat) : SEv α → Prop
  | .backward j g => j = i → k < g.length
  | .backwardRoot j g => j = i → k < g.length
  | _ => True

theorem getD_of_lt (g : List α) (k : Nat) (h : k < g.length) : g[k]? = some (g.getD k 0) := by
  simp [List.getD, List.getElem?_eq_getElem h]

/-- **Every event commutes with the abstraction** (SGD): if `q`, `b` are element `k` of parameter
    `i` and of its momentum buffer in `s`, then after the store event they are what the
    value-level event makes of `q`, `b`. -/
theorem store_event_refines_sgd (c : SGDCfg α) {s : Store α} (hI : Inv s) {i k : Nat} {q : P α}
    {b : Option α} (a : AbsP s i k q) (ab : AbsB s i k b) (e : SEv α) (hc : CoversEv i k e) :
    AbsP (Synap.OptimStore.sgdEv c s e) i k (sim1 (sgdUpdate c) i (q, b) (evAt k e)).1 ∧
    AbsB (Synap.OptimStore.sgdEv c s e) i k (sim1 (sgdUpdate c) i (q, b) (evAt k e)).2 := by
  cases e with
  | backward j g =>
    simp only [Synap.OptimStore.sgdEv, Synap.OptimStore.sgdEvG, evAt, sim1]
    by_cases hj : j = i
    · subst hj
      rw [if_pos rfl]
      exact accumulate_self hI g (getD_of_lt g k (hc rfl)) a ab
    · rw [if_neg hj]
      exact accumulate_other hI g hj a ab
  | backwardRoot j g =>
    simp only [Synap.OptimStore.sgdEv, Synap.OptimStore.sgdEvG, evAt, sim1]
    by_cases hj : j = i
    · subst hj
      rw [if_pos rfl]
      exact accumulateRoot_self (fun x => zero_add x) hI g (getD_of_lt g k (hc rfl)) a ab
    · rw [if_neg hj]
      exact accumulateRoot_other hI g hj a ab
  | zeroGrad =>
    simp only [Synap.OptimStore.sgdEv, Synap.OptimStore.sgdEvG, evAt, sim1]
    exact zeroGrad_abs hI a ab
  | setRg j r =>
    simp only [Synap.OptimStore.sgdEv, Synap.OptimStore.sgdEvG, evAt, sim1]
    exact setRg_abs r a ab
  | step =>
    simp only [Synap.OptimStore.sgdEv, Synap.OptimStore.sgdEvG, evAt, sim1]
    rw [← sgdStepP_eq]
    exact sgdStep_abs c hI a ab

/-- **The store model refines the value-level model** (SGD, all variants): for any history whose
    gradient arrays have an element `k` for parameter `i`, element `k` of parameter `i` and of its
    momentum buffer after the store run are exactly what the value-level model `Synap.Optim`
    computes from the initial element on the sliced history — for *any* list `ps` of value-level
    parameters that has `q` at index `i` (the other parameters do not matter). -/
theorem store_refines_value_model (c : SGDCfg α) (s0 : Store α) (h0 : Inv s0) (evs : List (SEv α))
    (i k : Nat) (hc : ∀ e ∈ evs, CoversEv i k e) (q : P α) (a : AbsP s0 i k q) (ab : AbsB s0 i k none)
    (ps : List (P α)) (hps : ps[i]? = some q) :
    ∃ q' b', (sgdRun c (sgdInit ps) (evs.map (evAt k))).ps[i]? = some q' ∧
      (sgdRun c (sgdInit ps) (evs.map (evAt k))).bufs[i]? = some b' ∧
      AbsP (Synap.OptimStore.sgdRun c s0 evs) i k q' ∧ AbsB (Synap.OptimStore.sgdRun c s0 evs) i k b' := by
  obtain ⟨h1, h2⟩ := sgdRun_sim c (evs.map (evAt k)) (sgdInit ps) i q none hps (sgdInit_bufs ps i q hps)
  refine ⟨_, _, h1, h2, ?_⟩
  have key : ∀ (evs : List (SEv α)) (s : Store α) (q : P α) (b : Option α), Inv s →
      (∀ e ∈ evs, CoversEv i k e) → AbsP s i k q → AbsB s i k b →
      AbsP (Synap.OptimStore.sgdRun c s evs) i k ((evs.map (evAt k)).foldl (sim1 (sgdUpdate c) i) (q, b)).1 ∧
      AbsB (Synap.OptimStore.sgdRun c s evs) i k ((evs.map (evAt k)).foldl (sim1 (sgdUpdate c) i) (q, b)).2 := by
    intro evs
    induction evs with
    | nil => intro s q b _ _ a ab; exact ⟨a, ab⟩
    | cons e es ih =>
      intro s q b hI hc a ab
      obtain ⟨a', ab'⟩ := store_event_refines_sgd c hI a ab e (hc e (List.mem_cons_self ..))
      have hI' : Inv (Synap.OptimStore.sgdEv c s e) := by
        obtain ⟨W, C, m, _⟩ := sgdEv_moves c s hI e; exact m.inv hI
      exact ih _ _ _ hI' (fun e' he' => hc e' (List.mem_cons_of_mem _ he')) a' ab'
  exact key evs s0 q none h0 hc a ab

/-- **Transferred trajectory theorem** (`sgd_refines` on the store model): with momentum, every
    element of every parameter's data buffer — the array object the model holds, updated in place —
    follows the documented SGD recursion on its effective gradients. -/
theorem store_sgd_refines (c : SGDCfg α) (hcfg : SGDCfg.Consistent c) (hm : c.useMom = true)
    (s0 : Store α) (h0 : Inv s0) (evs : List (SEv α)) (i k : Nat) (hc : ∀ e ∈ evs, CoversEv i k e)
    (q : P α) (a : AbsP s0 i k q) (ab : AbsB s0 i k none) :
    ∃ p, (Synap.OptimStore.sgdRun c s0 evs).ps[i]? = some p ∧
      val (Synap.OptimStore.sgdRun c s0 evs).heap p.data k
        = some ((effGrads i q.rg q.grad (evs.map (evAt k))).foldl
            (sgdSpecStep c.lr c.momentum c.dampening c.weightDecay c.nesterov c.maximize) (q.θ, none)).1 := by
  have hps : (List.replicate (i + 1) q)[i]? = some q := by
    rw [List.getElem?_replicate]; simp
  obtain ⟨q', b', h1, _, ⟨p, hp, hθ, _, _⟩, _⟩ :=
    store_refines_value_model c s0 h0 evs i k hc q a ab (List.replicate (i + 1) q) hps
  obtain ⟨q'', h1', hθ'⟩ := sgd_refines c hcfg hm (List.replicate (i + 1) q) (evs.map (evAt k)) i q hps
  rw [h1] at h1'; cases h1'
  exact ⟨p, hp, by rw [hθ, hθ']⟩

/-- ... and plain SGD (`sgd_plain_refines` on the store model) -/
theorem store_sgd_plain_refines (c : SGDCfg α) (hcfg : SGDCfg.Consistent c) (hm : c.useMom = false)
    (s0 : Store α) (h0 : Inv s0) (evs : List (SEv α)) (i k : Nat) (hc : ∀ e ∈ evs, CoversEv i k e)
    (q : P α) (a : AbsP s0 i k q) (ab : AbsB s0 i k none) :
    ∃ p, (Synap.OptimStore.sgdRun c s0 evs).ps[i]? = some p ∧
      val (Synap.OptimStore.sgdRun c s0 evs).heap p.data k
        = some ((effGrads i q.rg q.grad (evs.map (evAt k))).foldl
            (sgdSpecStepPlain c.lr c.weightDecay c.maximize) q.θ) := by
  have hps : (List.replicate (i + 1) q)[i]? = some q := by
    rw [List.getElem?_replicate]; simp
  obtain ⟨q', b', h1, _, ⟨p, hp, hθ, _, _⟩, _⟩ :=
    store_refines_value_model c s0 h0 evs i k hc q a ab (List.replicate (i + 1) q) hps
  obtain ⟨q'', h1', hθ'⟩ := sgd_plain_refines c hcfg hm (List.replicate (i + 1) q) (evs.map (evAt k)) i q hps
  rw [h1] at h1'; cases h1'
  exact ⟨p, hp, by rw [hθ, hθ']⟩

/-- the shape of a parameter never shrinks below an element that every gradient array covers:
    element `k` of the data buffer still exists after the history -/
theorem data_element_kept (c : SGDCfg α) (s0 : Store α) (h0 : Inv s0) (evs : List (SEv α))
    (i k : Nat) (hc : ∀ e ∈ evs, CoversEv i k e) (q : P α) (a : AbsP s0 i k q) (ab : AbsB s0 i k none) :
    ∃ p, (Synap.OptimStore.sgdRun c s0 evs).ps[i]? = some p ∧
      k < (rdBuf (Synap.OptimStore.sgdRun c s0 evs).heap p.data).length := by
  have hps : (List.replicate (i + 1) q)[i]? = some q := by
    rw [List.getElem?_replicate]; simp
  obtain ⟨q', b', _, _, ⟨p, hp, hθ, _, _⟩, _⟩ :=
    store_refines_value_model c s0 h0 evs i k hc q a ab (List.replicate (i + 1) q) hps
  refine ⟨p, hp, ?_⟩
  unfold val at hθ
  exact (List.getElem?_eq_some_iff.mp hθ).1

/-- **No array ever gets longer**: in-place statements are elementwise over the old content,
    allocating statements do not touch existing buffers (SGD; Adam / AdamW; any history). -/
theorem arrays_never_grow (s0 : Store α) (evs : List (SEv α)) (x : BufId) (hx : x < s0.heap.length) :
    (∀ c : SGDCfg α, (rdBuf (Synap.OptimStore.sgdRun c s0 evs).heap x).length ≤ (rdBuf s0.heap x).length) ∧
    (∀ c : AdamCfg α, (rdBuf (Synap.OptimStore.adamRun c s0 evs).heap x).length ≤ (rdBuf s0.heap x).length) :=
  ⟨fun c => (sgdRun_noGrow c s0 evs).2 x hx, fun c => (adamRun_noGrow c s0 evs).2 x hx⟩

/-- **Shape kept** (SGD): when every gradient array delivered to parameter `i` covers the shape
    of its data (and so does the initial gradient buffer, if any; new optimizer), then after any
    history parameter `i` holds the same data buffer, of the same length. -/
theorem data_shape_kept (c : SGDCfg α) (s0 : Store α) (h0 : Inv s0) (evs : List (SEv α)) (i : Nat)
    (p0 : PS) (hp0 : s0.ps[i]? = some p0)
    (hc : ∀ k, k < (rdBuf s0.heap p0.data).length →
      (∀ e ∈ evs, CoversEv i k e) ∧ (∃ q, AbsP s0 i k q) ∧ AbsB s0 i k none) :
    ∃ p, (Synap.OptimStore.sgdRun c s0 evs).ps[i]? = some p ∧ p.data = p0.data ∧
      (rdBuf (Synap.OptimStore.sgdRun c s0 evs).heap p.data).length = (rdBuf s0.heap p0.data).length := by
  have hd := ((updates_in_place s0 h0 evs).1 c).1 i
  rw [slot_data_of hp0] at hd
  simp only [slot] at hd
  cases hp : (Synap.OptimStore.sgdRun c s0 evs).ps[i]? with
  | none => rw [hp] at hd; cases hd
  | some p =>
    rw [hp] at hd
    have hpd : p.data = p0.data := by simpa using hd
    refine ⟨p, rfl, hpd, Nat.le_antisymm ?_ (Nat.le_of_not_lt fun hlt => ?_)⟩
    · rw [hpd]
      exact (sgdRun_noGrow c s0 evs).2 p0.data (h0.bounded .data i _ (slot_data_of hp0))
    · obtain ⟨hcov, ⟨q, a⟩, ab⟩ := hc _ hlt
      obtain ⟨p', hp', hk⟩ := data_element_kept c s0 h0 evs i _ hcov q a ab
      rw [hp] at hp'; cases hp'
      exact Nat.lt_irrefl _ hk

/-! ### Adam / AdamW on the store model -/

/-- **Every event commutes with the abstraction** (Adam / AdamW): `q` = element `k` of parameter
    `i`, `mo` = element `k` of its two moment arrays (a moment that is still the integer 0 reads as
    0) together with its step counter. -/
theorem store_event_refines_adam (c : AdamCfg α) {s : Store α} (hI : Inv s) {i k : Nat} {q : P α}
    {mo : Moments α} (a : AbsP s i k q) (am : AbsMo s i k mo) (e : SEv α) (hc : CoversEv i k e) :
    AbsP (Synap.OptimStore.adamEv c s e) i k (sim1 (adamUpdate c) i (q, mo) (evAt k e)).1 ∧
    AbsMo (Synap.OptimStore.adamEv c s e) i k (sim1 (adamUpdate c) i (q, mo) (evAt k e)).2 := by
  cases e with
  | backward j g =>
    simp only [Synap.OptimStore.adamEv, evAt, sim1]
    exact accumulate_absPMo hI j g (fun h => getD_of_lt g k (hc h)) a am
  | backwardRoot j g =>
    simp only [Synap.OptimStore.adamEv, evAt, sim1]
    exact accumulateRoot_absPMo (fun x => zero_add x) hI j g (fun h => getD_of_lt g k (hc h)) a am
  | zeroGrad =>
    simp only [Synap.OptimStore.adamEv, evAt, sim1]
    exact zeroGrad_absPMo hI a am
  | setRg j r =>
    simp only [Synap.OptimStore.adamEv, evAt, sim1]
    exact setRg_absPMo r a am
  | step =>
    simp only [Synap.OptimStore.adamEv, evAt, sim1]
    rw [← adamStepP_eq]
    exact adamStep_abs c hI a am

/-- **The store model refines the value-level model** (Adam / AdamW). -/
theorem store_refines_value_model_adam (c : AdamCfg α) (s0 : Store α) (h0 : Inv s0) (evs : List (SEv α))
    (i k : Nat) (hc : ∀ e ∈ evs, CoversEv i k e) (q : P α) (a : AbsP s0 i k q)
    (am : AbsMo s0 i k ⟨0, 0, 0⟩) (ps : List (P α)) (hps : ps[i]? = some q) :
    ∃ q' mo', (adamRun c (adamInit ps) (evs.map (evAt k))).ps[i]? = some q' ∧
      (adamRun c (adamInit ps) (evs.map (evAt k))).mos[i]? = some mo' ∧
      AbsP (Synap.OptimStore.adamRun c s0 evs) i k q' ∧ AbsMo (Synap.OptimStore.adamRun c s0 evs) i k mo' := by
  obtain ⟨h1, h2⟩ := adamRun_sim c (evs.map (evAt k)) (adamInit ps) i q ⟨0, 0, 0⟩ hps (adamInit_mos ps i q hps)
  refine ⟨_, _, h1, h2, ?_⟩
  have key : ∀ (evs : List (SEv α)) (s : Store α) (q : P α) (mo : Moments α), Inv s →
      (∀ e ∈ evs, CoversEv i k e) → AbsP s i k q → AbsMo s i k mo →
      AbsP (Synap.OptimStore.adamRun c s evs) i k ((evs.map (evAt k)).foldl (sim1 (adamUpdate c) i) (q, mo)).1 ∧
      AbsMo (Synap.OptimStore.adamRun c s evs) i k ((evs.map (evAt k)).foldl (sim1 (adamUpdate c) i) (q, mo)).2 := by
    intro evs
    induction evs with
    | nil => intro s q mo _ _ a am; exact ⟨a, am⟩
    | cons e es ih =>
      intro s q mo hI hc a am
      obtain ⟨a', am'⟩ := store_event_refines_adam c hI a am e (hc e (List.mem_cons_self ..))
      have hI' : Inv (Synap.OptimStore.adamEv c s e) := by
        obtain ⟨W, C, m, _⟩ := adamEv_moves c s hI e; exact m.inv hI
      exact ih _ _ _ hI' (fun e' he' => hc e' (List.mem_cons_of_mem _ he')) a' am'
  exact key evs s0 q ⟨0, 0, 0⟩ h0 hc a am

/-- **Transferred trajectory theorem** (`adam_refines` on the store model): every element of every
    parameter's data buffer follows the documented Adam / AdamW recursion on its effective
    gradients, with the bias-correction exponent counting the updates applied to that parameter. -/
theorem store_adam_refines (c : AdamCfg α) (hcfg : c.useWd = false → c.weightDecay = 0)
    (s0 : Store α) (h0 : Inv s0) (evs : List (SEv α)) (i k : Nat) (hc : ∀ e ∈ evs, CoversEv i k e)
    (q : P α) (a : AbsP s0 i k q) (am : AbsMo s0 i k ⟨0, 0, 0⟩) :
    ∃ p, (Synap.OptimStore.adamRun c s0 evs).ps[i]? = some p ∧
      val (Synap.OptimStore.adamRun c s0 evs).heap p.data k
        = some ((effGrads i q.rg q.grad (evs.map (evAt k))).foldl (adamSpecStep c) (q.θ, ⟨0, 0, 0⟩)).1 := by
  have hps : (List.replicate (i + 1) q)[i]? = some q := by
    rw [List.getElem?_replicate]; simp
  obtain ⟨q', mo', h1, _, ⟨p, hp, hθ, _, _⟩, _⟩ :=
    store_refines_value_model_adam c s0 h0 evs i k hc q a am (List.replicate (i + 1) q) hps
  obtain ⟨q'', h1', hθ'⟩ := adam_refines c hcfg (List.replicate (i + 1) q) (evs.map (evAt k)) i q hps
  rw [h1] at h1'; cases h1'
  exact ⟨p, hp, by rw [hθ, hθ']⟩

/-- **Shape kept** (Adam / AdamW). -/
theorem data_shape_kept_adam (c : AdamCfg α) (s0 : Store α) (h0 : Inv s0) (evs : List (SEv α)) (i : Nat)
    (p0 : PS) (hp0 : s0.ps[i]? = some p0)
    (hc : ∀ k, k < (rdBuf s0.heap p0.data).length →
      (∀ e ∈ evs, CoversEv i k e) ∧ (∃ q, AbsP s0 i k q) ∧ AbsMo s0 i k ⟨0, 0, 0⟩) :
    ∃ p, (Synap.OptimStore.adamRun c s0 evs).ps[i]? = some p ∧ p.data = p0.data ∧
      (rdBuf (Synap.OptimStore.adamRun c s0 evs).heap p.data).length = (rdBuf s0.heap p0.data).length := by
  have hd := ((updates_in_place s0 h0 evs).2 c).1 i
  rw [slot_data_of hp0] at hd
  simp only [slot] at hd
  cases hp : (Synap.OptimStore.adamRun c s0 evs).ps[i]? with
  | none => rw [hp] at hd; cases hd
  | some p =>
    rw [hp] at hd
    have hpd : p.data = p0.data := by simpa using hd
    refine ⟨p, rfl, hpd, Nat.le_antisymm ?_ (Nat.le_of_not_lt fun hlt => ?_)⟩
    · rw [hpd]
      exact (adamRun_noGrow c s0 evs).2 p0.data (h0.bounded .data i _ (slot_data_of hp0))
    · obtain ⟨hcov, ⟨q, a⟩, am⟩ := hc _ hlt
      have hps : (List.replicate (i + 1) q)[i]? = some q := by
        rw [List.getElem?_replicate]; simp
      obtain ⟨q', mo', _, _, ⟨p', hp', hθ, _, _⟩, _⟩ :=
        store_refines_value_model_adam c s0 h0 evs i _ hcov q a am (List.replicate (i + 1) q) hps
      rw [hp] at hp'; cases hp'
      unfold val at hθ
      exact Nat.lt_irrefl _ (List.getElem?_eq_some_iff.mp hθ).1

end Store

/-! ### What the private copy buys: the defective variant (first momentum buffer = the gradient array) -/
section Counterexample
open Proofs.OptimStore
open Synap.OptimStore (Store slot rdBuf Role)

/-- lr = 1, momentum = 1, no dampening, no weight decay, over the integers -/
def cexCfg : SGDCfg Int := ⟨1, 1, 0, 0, false, true, false, false⟩
/-- backward, step, backward (no zero_grad), step on one parameter `[0]` with gradient `[1]` each time -/
def cexEvs : List (Synap.OptimStore.Ev Int) := [.backward 0 [1], .step, .backward 0 [1], .step]
def cexInit : Store Int := Synap.OptimStore.mk [[0]] [true]

/-- **Counterexample for the variant that stores `grad` itself as first momentum buffer**
    (`sgdStepAliased`), machine-checked by evaluation:
    after backward, step the momentum place holds the gradient's buffer (separation is broken);
    the next backward — without `zero_grad` — changes the momentum buffer's content from `[1]` to
    `[2]`; after the second step the momentum buffer holds `[4]` and the parameter `[-5]`, whereas
    the value-level model (and the store model with the private copy) give `3` and `-4`. -/
theorem aliased_first_buffer_counterexample :
    -- the alias
    slot (Synap.OptimStore.sgdRunAliased cexCfg cexInit (cexEvs.take 2)) .b1 0 = some 1 ∧
    slot (Synap.OptimStore.sgdRunAliased cexCfg cexInit (cexEvs.take 2)) .grad 0 = some 1 ∧
    ¬ Inv (Synap.OptimStore.sgdRunAliased cexCfg cexInit (cexEvs.take 2)) ∧
    -- the corruption by gradient accumulation
    rdBuf (Synap.OptimStore.sgdRunAliased cexCfg cexInit (cexEvs.take 2)).heap 1 = [1] ∧
    slot (Synap.OptimStore.sgdRunAliased cexCfg cexInit (cexEvs.take 3)) .b1 0 = some 1 ∧
    rdBuf (Synap.OptimStore.sgdRunAliased cexCfg cexInit (cexEvs.take 3)).heap 1 = [2] ∧
    -- the wrong trajectory
    slot (Synap.OptimStore.sgdRunAliased cexCfg cexInit cexEvs) .b1 0 = some 2 ∧
    rdBuf (Synap.OptimStore.sgdRunAliased cexCfg cexInit cexEvs).heap 2 = [4] ∧
    rdBuf (Synap.OptimStore.sgdRunAliased cexCfg cexInit cexEvs).heap 0 = [-5] ∧
    -- the value-level model
    (sgdRun cexCfg (sgdInit [⟨0, none, true⟩]) [.backward 0 1, .step, .backward 0 1, .step]).bufs = [some 3] ∧
    (sgdRun cexCfg (sgdInit [⟨0, none, true⟩]) [.backward 0 1, .step, .backward 0 1, .step]).ps.map (·.θ) = [-4] ∧
    -- the code (private copy): same as the value-level model, momentum buffer untouched by the backward
    rdBuf (Synap.OptimStore.sgdRun cexCfg cexInit (cexEvs.take 2)).heap 2 = [1] ∧
    rdBuf (Synap.OptimStore.sgdRun cexCfg cexInit (cexEvs.take 3)).heap 2 = [1] ∧
    slot (Synap.OptimStore.sgdRun cexCfg cexInit cexEvs) .b1 0 = some 3 ∧
    rdBuf (Synap.OptimStore.sgdRun cexCfg cexInit cexEvs).heap 3 = [3] ∧
    rdBuf (Synap.OptimStore.sgdRun cexCfg cexInit cexEvs).heap 0 = [-4] := by
  refine ⟨by decide, by decide, ?_, by decide, by decide, by decide, by decide, by decide, by decide,
    by decide, by decide, by decide, by decide, by decide, by decide, by decide⟩
  intro h
  have := (h.sep .b1 0 .grad 0 1 (by decide) (by decide)).1
  exact absurd this (by decide)

/-! ### Non-vacuity of the hypotheses -/

/-- `Inv` holds for a freshly built model with two parameters, one of them frozen … -/
example : Inv (Synap.OptimStore.mk [[1, 2], [3]] [true, false] : Store Int) :=
  inv_mk _ _ (by decide)

/-- … the abstraction is defined there: element 1 of parameter 0 is `2`, no gradient, trainable;
    its momentum buffer is absent … -/
example : AbsP (Synap.OptimStore.mk [[1, 2], [3]] [true, false] : Store Int) 0 1 ⟨2, none, true⟩ :=
  ⟨⟨0, none, true⟩, by decide, by decide, by decide, rfl⟩
example : AbsB (Synap.OptimStore.mk [[1, 2], [3]] [true, false] : Store Int) 0 1 none :=
  ⟨none, by decide, by decide⟩
example : AbsMo (Synap.OptimStore.mk [[1, 2], [3]] [true, false] : Store Int) 0 1 ⟨0, 0, 0⟩ :=
  ⟨none, none, none, none, by decide, by decide, by decide, by decide, by decide, rfl, rfl⟩

/-- … a history with two backward calls per step and no zero_grad is covered at element 1 … -/
example : ∀ e ∈ ([.backward 0 [1, 1], .backward 0 [2, 2], .step, .backward 0 [1, 0], .step] :
    List (Synap.OptimStore.Ev Int)), (match e with
      | .backward j g => j = 0 → 1 < g.length
      | .backwardRoot j g => j = 0 → 1 < g.length
      | _ => True) := by
  intro e he
  simp only [List.mem_cons, List.not_mem_nil, or_false] at he
  rcases he with rfl | rfl | rfl | rfl | rfl <;> simp

/-- … and after it (code variant) the places are still pairwise separated: the live ids are
    data 0, 1, gradient 2, momentum buffer 4 (3 was the first momentum buffer, now garbage) -/
example : Synap.OptimStore.liveIds (Synap.OptimStore.sgdRun cexCfg
      (Synap.OptimStore.mk [[1, 2], [3]] [true, false])
      [.backward 0 [1, 1], .backward 0 [2, 2], .step, .backward 0 [1, 0], .step]) = [0, 1, 2, 4] := by
  decide

end Counterexample

/-! ### The step bodies of the source, as translated on this run (`Synap.Gen.*_step`, file `Generated/OptimSteps.lean`, rewritten
    from `optimizers.py` by `harness/optim_formulas.py` every time the check runs), are the model's update functions — and hence
    the published rules.  The Boolean arguments are named after the tests the source makes. -/

theorem src_sgd_step_is_model (c : SGDCfg α) (θ g : α) (buf : Option α) :
    Synap.Gen.sgd_step (dampening := c.dampening) (lr := c.lr) (momentum := c.momentum) (weight_decay := c.weightDecay)
      (maximize := c.maximize) (momentum_ne_0 := c.useMom) (nesterov := c.nesterov) (weight_decay_ne_0 := c.useWd) θ g buf
    = sgdUpdate c θ g buf := Proofs.OptimStepTie.sgd_step_eq c θ g buf

theorem src_adam_step_is_model (c : AdamCfg α) (hd : c.decoupled = false) (θ g : α) (mo : Moments α) :
    Synap.Gen.adam_step (beta1 := c.beta1) (beta2 := c.beta2) (epsilon := c.eps) (lr := c.lr) (weight_decay := c.weightDecay)
      (maximize := c.maximize) (weight_decay_ne_0 := c.useWd) θ g mo.m1 mo.m2 mo.t
    = ((adamUpdate c θ g mo).1, (adamUpdate c θ g mo).2.m1, (adamUpdate c θ g mo).2.m2, (adamUpdate c θ g mo).2.t) :=
  Proofs.OptimStepTie.adam_step_eq c hd θ g mo

theorem src_adamw_step_is_model (c : AdamCfg α) (hd : c.decoupled = true) (θ g : α) (mo : Moments α) :
    Synap.Gen.adamw_step (beta1 := c.beta1) (beta2 := c.beta2) (epsilon := c.eps) (lr := c.lr) (weight_decay := c.weightDecay)
      (maximize := c.maximize) θ g mo.m1 mo.m2 mo.t
    = ((adamUpdate c θ g mo).1, (adamUpdate c θ g mo).2.m1, (adamUpdate c θ g mo).2.m2, (adamUpdate c θ g mo).2.t) :=
  Proofs.OptimStepTie.adamw_step_eq c hd θ g mo

/-- **the source's SGD step is the documented step** (momentum in use; the two `!= 0` tests evaluated on the values they test) -/
theorem src_sgd_step_is_published_rule [DecidableEq α] (lr μ τ wd : α) (nesterov maximize : Bool) (hμ : μ ≠ 0) (θ g : α) (buf : Option α) :
    Synap.Gen.sgd_step (dampening := τ) (lr := lr) (momentum := μ) (weight_decay := wd) (maximize := maximize)
      (momentum_ne_0 := decide (μ ≠ 0)) (nesterov := nesterov) (weight_decay_ne_0 := decide (wd ≠ 0)) θ g buf
    = sgdSpecStep lr μ τ wd nesterov maximize (θ, buf) g := by
  let c : SGDCfg α := ⟨lr, μ, τ, wd, decide (wd ≠ 0), decide (μ ≠ 0), nesterov, maximize⟩
  have hc : SGDCfg.Consistent c := ⟨fun h => by simpa [c] using h, fun h => by simpa [c] using h⟩
  have hm : c.useMom = true := by simp [c, hμ]
  have h1 := src_sgd_step_is_model c θ g buf
  have h2 := congrFun (congrFun (sgdUpdate_eq_spec c hc hm) (θ, buf)) g
  simp only [c] at h1 h2
  rw [h1]; exact h2

/-- **the source's Adam / AdamW steps are the documented step** (`adamSpecStep`), the `!= 0` test evaluated on the value it tests -/
theorem src_adam_step_is_published_rule [DecidableEq α] (lr β1 β2 eps wd : α) (maximize : Bool) (θ g : α) (mo : Moments α) :
    Synap.Gen.adam_step (beta1 := β1) (beta2 := β2) (epsilon := eps) (lr := lr) (weight_decay := wd) (maximize := maximize)
      (weight_decay_ne_0 := decide (wd ≠ 0)) θ g mo.m1 mo.m2 mo.t
    = (let r := adamSpecStep ⟨lr, β1, β2, eps, wd, decide (wd ≠ 0), maximize, false⟩ (θ, mo) g; (r.1, r.2.m1, r.2.m2, r.2.t)) := by
  let c : AdamCfg α := ⟨lr, β1, β2, eps, wd, decide (wd ≠ 0), maximize, false⟩
  have h1 := src_adam_step_is_model c rfl θ g mo
  have h2 := congrFun (congrFun (adamUpdate_eq_spec c (fun h => by simpa [c] using h)) (θ, mo)) g
  simp only [c] at h1 h2
  rw [h1]; simp only [h2]

theorem src_adamw_step_is_published_rule (lr β1 β2 eps wd : α) (maximize : Bool) (θ g : α) (mo : Moments α) :
    Synap.Gen.adamw_step (beta1 := β1) (beta2 := β2) (epsilon := eps) (lr := lr) (weight_decay := wd) (maximize := maximize)
      θ g mo.m1 mo.m2 mo.t
    = (let r := adamSpecStep ⟨lr, β1, β2, eps, wd, true, maximize, true⟩ (θ, mo) g; (r.1, r.2.m1, r.2.m2, r.2.t)) := by
  let c : AdamCfg α := ⟨lr, β1, β2, eps, wd, true, maximize, true⟩
  have h1 := src_adamw_step_is_model c rfl θ g mo
  have h2 := congrFun (congrFun (adamUpdate_eq_spec c (fun h => by simp [c] at h)) (θ, mo)) g
  simp only [c] at h1 h2
  rw [h1]; simp only [h2]

end Props.C08
