import Proofs.FormulaTie
/-!
# C05 — the forward formulas of the elementwise tensor ops, read from the source on this run, are what the model applies

See `Props/C01Formulas.lean` for the role of `Synap.Gen.*` (regenerated from `cpu_ops.py` by `harness/formulas.py` on every run).
-/
namespace Props.C05
open Synap Synap.NDArray Synap.Np Synap.Kernels Proofs.FormulaTie

theorem src_forward_add (a b : NDArray ℝ) : addForward a b = bcast2 Gen.add_forward a b := lift_add a b
theorem src_forward_mul (a b : NDArray ℝ) : mulForward a b = bcast2 Gen.mul_forward a b := (lift_mul a b a).1
theorem src_forward_neg (a : NDArray ℝ) : negForward a = a.map Gen.neg_forward := (lift_neg a a).1
theorem src_forward_exp (a : NDArray ℝ) : expForward a = a.map Gen.exp_forward := (lift_exp a a a).1
/-- `log` computes `log(x + ε)` with the module constant read from the source -/
theorem src_forward_log (a : NDArray ℝ) : logForward a = a.map Gen.log_forward := (lift_log a a).1
theorem src_forward_sqrt (a : NDArray ℝ) : sqrtForward a = a.map Gen.sqrt_forward := (lift_sqrt a a a).1
/-- `x ** n` is the real power for every exponent: no exponent has a path of its own -/
theorem src_forward_pow (a : NDArray ℝ) (n : ℝ) : powForward a n = a.map (fun x => Gen.pow_forward x n) := (lift_pow a a n).1
theorem src_forward_pow_formula (x n : ℝ) : Gen.pow_forward x n = x ^ n := by formula_eq
theorem src_forward_rpow (a : NDArray ℝ) (n : ℝ) : rpowForward a n = a.map (fun x => Gen.rpow_forward x n) := (lift_rpow a a a n).1

end Props.C05
