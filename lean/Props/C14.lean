import Proofs.Core
import Proofs.NNSpecLemmas
import SynapModel.Ops
import Proofs.SpecNN
/-!
# C14 — Fused operations equal the compositions their documentation equates them with

Value identities on the model, for all operand shapes and values.  (The gradients of both sides
then coincide because both are vector-Jacobian products of the same function: `Props.C01.vjp_unique`;
on the implementation both sides' values and gradients are compared by the check.)
-/
namespace Props.C14
open Synap Synap.NDArray Synap.Np Synap.Kernels Synap.Api Synap.Ops Proofs.Core Proofs.NNSpec

variable {α : Type} [Zero α] [One α] [Add α] [Sub α] [Mul α] [Div α] [Neg α] [NatCast α]
  [OfScientific α] [LT α] [DecidableLT α] [LE α] [DecidableLE α] [Transc α]

/-- **linear = x @ W.T + b** (and `x @ W.T` without bias); **addmm = a + b @ c**. -/
theorem linear_is_addmm (x w b : NDArray α) :
    linearForward x w (some b) = (swapaxes w 0 1).bind (fun wt => (matmul x wt).bind (fun m => addForward b m)) ∧
    linearForward x w none = (swapaxes w 0 1).bind (fun wt => matmul x wt) ∧
    (∀ a c, addmmForward a x c = (matmul x c).bind (fun m => addForward a m)) := by
  exact ⟨rfl, rfl, fun _ _ => rfl⟩

/-- **cross-entropy = NLL of log_softmax** (over dim 1 of a 2-d input). -/
theorem cross_entropy_is_nll_log_softmax (x : NDArray α) (labels : List Nat) (h2 : x.shape.length = 2) :
    crossEntropyForward x labels = (logSoftmaxForward x 1).bind (fun ls => nllForward ls labels) := by
  simp [crossEntropyForward, h2]

/-- **mean = sum / count** -/
theorem mean_is_sum_div_count (x : NDArray α) (ax : Axes) (keep : Bool) (axes : List Nat)
    (h : ax.norm x.shape.length = some axes) :
    meanForward x ax keep = (sumForward x ax keep).map (fun s => s.map (· / (((axes.map (fun k => x.shape.getD k 0)).foldr (· * ·) 1 : Nat) : α))) := by
  simp [meanForward, sumForward, Np.sum, h]

/-- **flatten = reshape** to the merged shape -/
theorem flatten_is_reshape (x : NDArray α) (s e : Int) :
    flattenForward x s e = (flattenTarget x.shape s e).bind (fun t => reshapeForward x t) := by
  rfl

/-- **a − b = a + (−b)** with `−b = b * −1` -/
theorem sub_is_add_neg (st : TState α) (a b : Nat) :
    applySOp st .subT a (.inl b) =
      (scalarOperand st (-1) b).bind (fun (st1, S) => (one1 (apply st1 .mul [b, S])).bind (fun (st2, m) => one1 (apply st2 .add [a, m]))) := by
  rfl

/-- **a / b = a * b ** −1** -/
theorem div_is_mul_pow (st : TState α) (a b : Nat) :
    applySOp st .divT a (.inl b) = (one1 (apply st (.pow (-1)) [b])).bind (fun (st1, p) => one1 (apply st1 .mul [a, p])) := by
  rfl

variable {R : Type} [CommRing R]

/-- **stack = concat of the unsqueezed operands** -/
theorem stack_is_concat_unsqueeze (xs : List (NDArray R)) (hxs : ∀ x ∈ xs, x.WF) (axis : Int) (y : NDArray R)
    (h : stackForward xs axis = some y) :
    ∃ us, xs.mapM (fun x => unsqueezeForward x [axis]) = some us ∧ concatForward us axis = some y := by
  exact stack_is_concat_expand xs axis y h

/-- **unbind inverts stack** -/
theorem unbind_inverts_stack (xs : List (NDArray R)) (hxs : ∀ x ∈ xs, x.WF) (hne : xs ≠ []) (axis : Int) (y : NDArray R)
    (h : stackForward xs axis = some y) : unbindForward y axis = some xs := by
  exact unbind_stack xs hxs axis y h

/-- **movedim between adjacent dims = transpose** -/
theorem movedim_adjacent_is_transpose (x : NDArray R) (a : Nat) (ha : a + 1 < x.shape.length) :
    movedimForward x a (a + 1 : Nat) = transposeForward x a (a + 1 : Nat) ∧
    movedimForward x (a + 1 : Nat) a = transposeForward x a (a + 1 : Nat) := by
  have h0 : normAxis x.shape.length (a : Int) = some a := normAxis_natCast _ _ (by omega)
  have h1 : normAxis x.shape.length ((a + 1 : Nat) : Int) = some (a + 1) := normAxis_natCast _ _ ha
  obtain ⟨e1, e2⟩ := moveaxisPerm_adjacent x.shape.length a ha
  simp only [movedimForward, transposeForward, moveaxis, swapaxes, h0, h1, Option.bind_eq_bind,
    Option.bind_some, Option.pure_def, e1, e2, and_self]

/-! ### convolution = unfold + matrix product; pooling = unfold + mean / max (statements and proofs in `Proofs/SpecNN.lean`)

* `conv2d_is_unfold_matmul`   for accepted arguments the four steps the documentation names are all accepted and
  `reshape(matmul(reshape w (C_out, C·kH·kW), unfold x), (N, C_out, H_out, W_out))` IS the result of `conv2d x w`
* `avgpool2d_is_unfold_mean`  `avg_pool2d x = reshape(mean over axis 2 of reshape(unfold x, (N, C, kH·kW, L)))`
* `maxpool2d_is_unfold_max`   the same with −∞ padding and `max` (needs N, C ≠ 0 — `max` rejects empty operands — and −∞ ≤ every entry) -/
alias conv2d_is_unfold_matmul := Proofs.SpecNN.conv2d_is_unfold_matmul
alias avgpool2d_is_unfold_mean := Proofs.SpecNN.avgpool2d_is_unfold_mean
alias maxpool2d_is_unfold_max := Proofs.SpecNN.maxpool2d_is_unfold_max

end Props.C14
