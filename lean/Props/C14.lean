import SynapModel.Ops
namespace Props.C14
theorem placeholder : True := trivial
end Props.C14
