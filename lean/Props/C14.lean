import Props.C14Formulas
import Proofs.Core
import Proofs.NNSpecLemmas
import SynapModel.Ops
import Proofs.SpecNN
import Proofs.FusedIdentities
import Proofs.FusedModules
import Proofs.FusedGrad
import Proofs.Fused1d
/-!
# C14 — Fused operations equal the compositions their documentation equates them with

Value identities on the model, for all operand shapes and values.  The gradients of both sides
then coincide because both are vector-Jacobian products of the same function: this argument is the pair of theorems
`grad_eq_of_forward_eq` / `vjp_grad_eq_of_forward_eq` below (built on `Props.C01.vjp_unique`), instantiated for
cross-entropy, linear and mean; on the implementation both sides' values and gradients are compared by the check.

Identities through the library's `1e-12` guard are stated as they are: `log_softmax = log ∘ softmax` is exact for the
mathematical logarithm and strictly off for the library's `log`; `BCE-with-logits = BCE ∘ sigmoid` is FALSE as an
equality (the negation is proved), the exact relation and its `ε`-bound are theorems.
-/
namespace Props.C14
open Synap Synap.NDArray Synap.Np Synap.Kernels Synap.Api Synap.Ops Proofs.Core Proofs.NNSpec

variable {α : Type} [Zero α] [One α] [Add α] [Sub α] [Mul α] [Div α] [Neg α] [NatCast α]
  [OfScientific α] [LT α] [DecidableLT α] [LE α] [DecidableLE α] [Transc α]

/-- **linear = x @ W.T + b** (and `x @ W.T` without bias); **addmm = a + b @ c**. -/
theorem linear_is_addmm (x w b : NDArray α) :
    linearForward x w (some b) = (swapaxes w 0 1).bind (fun wt => (matmul x wt).bind (fun m => addForward b m)) ∧
    linearForward x w none = (swapaxes w 0 1).bind (fun wt => matmul x wt) ∧
    (∀ a c, addmmForward a x c = (matmul x c).bind (fun m => addForward a m)) := by
  exact ⟨rfl, rfl, fun _ _ => rfl⟩

/-- **cross-entropy = NLL of log_softmax** (over dim 1 of a 2-d input). -/
theorem cross_entropy_is_nll_log_softmax (x : NDArray α) (labels : List Nat) (h2 : x.shape.length = 2) :
    crossEntropyForward x labels = (logSoftmaxForward x 1).bind (fun ls => nllForward ls labels) := by
  simp [crossEntropyForward, h2]

/-- **mean = sum / count** -/
theorem mean_is_sum_div_count (x : NDArray α) (ax : Axes) (keep : Bool) (axes : List Nat)
    (h : ax.norm x.shape.length = some axes) :
    meanForward x ax keep = (sumForward x ax keep).map (fun s => s.map (· / (((axes.map (fun k => x.shape.getD k 0)).foldr (· * ·) 1 : Nat) : α))) := by
  simp [meanForward, sumForward, Np.sum, h, Proofs.Adjoint.normRed_of_norm h]

/-- **flatten = reshape** to the merged shape -/
theorem flatten_is_reshape (x : NDArray α) (s e : Int) :
    flattenForward x s e = (flattenTarget x.shape s e).bind (fun t => reshapeForward x t) := by
  rfl

/-- **a − b = a + (−b)** with `−b = b * −1` -/
theorem sub_is_add_neg (st : TState α) (a b : Nat) :
    applySOp st .subT a (.inl b) =
      (scalarOperand st (-1) b).bind (fun (st1, S) => (one1 (apply st1 .mul [b, S])).bind (fun (st2, m) => one1 (apply st2 .add [a, m]))) := by
  rfl

/-- **a / b = a * b ** −1** -/
theorem div_is_mul_pow (st : TState α) (a b : Nat) :
    applySOp st .divT a (.inl b) = (one1 (apply st (.pow (-1)) [b])).bind (fun (st1, p) => one1 (apply st1 .mul [a, p])) := by
  rfl

variable {R : Type} [CommRing R]

/-- **stack = concat of the unsqueezed operands** -/
theorem stack_is_concat_unsqueeze (xs : List (NDArray R)) (hxs : ∀ x ∈ xs, x.WF) (axis : Int) (y : NDArray R)
    (h : stackForward xs axis = some y) :
    ∃ us, xs.mapM (fun x => unsqueezeForward x [axis]) = some us ∧ concatForward us axis = some y := by
  exact stack_is_concat_expand xs axis y h

/-- **unbind inverts stack** -/
theorem unbind_inverts_stack (xs : List (NDArray R)) (hxs : ∀ x ∈ xs, x.WF) (hne : xs ≠ []) (axis : Int) (y : NDArray R)
    (h : stackForward xs axis = some y) : unbindForward y axis = some xs := by
  exact unbind_stack xs hxs axis y h

/-- **movedim between adjacent dims = transpose** -/
theorem movedim_adjacent_is_transpose (x : NDArray R) (a : Nat) (ha : a + 1 < x.shape.length) :
    movedimForward x a (a + 1 : Nat) = transposeForward x a (a + 1 : Nat) ∧
    movedimForward x (a + 1 : Nat) a = transposeForward x a (a + 1 : Nat) := by
  have h0 : normAxis x.shape.length (a : Int) = some a := normAxis_natCast _ _ (by omega)
  have h1 : normAxis x.shape.length ((a + 1 : Nat) : Int) = some (a + 1) := normAxis_natCast _ _ ha
  obtain ⟨e1, e2⟩ := moveaxisPerm_adjacent x.shape.length a ha
  simp only [movedimForward, transposeForward, moveaxis, swapaxes, h0, h1, Option.bind_eq_bind,
    Option.bind_some, Option.pure_def, e1, e2, and_self]

/-! ### convolution = unfold + matrix product; pooling = unfold + mean / max (statements and proofs in `Proofs/SpecNN.lean`)

* `conv2d_is_unfold_matmul`   for accepted arguments the four steps the documentation names are all accepted and
  `reshape(matmul(reshape w (C_out, C·kH·kW), unfold x), (N, C_out, H_out, W_out))` IS the result of `conv2d x w`
* `avgpool2d_is_unfold_mean`  `avg_pool2d x = reshape(mean over axis 2 of reshape(unfold x, (N, C, kH·kW, L)))`
* `maxpool2d_is_unfold_max`   the same with −∞ padding and `max` (needs N, C ≠ 0 — `max` rejects empty operands — and −∞ ≤ every entry) -/
alias conv2d_is_unfold_matmul := Proofs.SpecNN.conv2d_is_unfold_matmul
alias avgpool2d_is_unfold_mean := Proofs.SpecNN.avgpool2d_is_unfold_mean
alias maxpool2d_is_unfold_max := Proofs.SpecNN.maxpool2d_is_unfold_max

/-! ## 1-d convolution and pooling  (statements and proofs in `Proofs/Fused1d.lean`)

The model's 1-d kernels are defined independently of the 2-d ones; the library's `unfold` takes 4-d input only.  So the
1-d identities go through the one-row lift `x[:, :, None, :]`:

* `conv1d_is_conv2d_row`, `avgpool1d_is_avgpool2d_row`, `maxpool1d_is_maxpool2d_row`: for accepted arguments the 2-d kernel
  with kernel `(1,k)`, stride `(1,s)`, padding `(0,p)`, dilation `(1,d)` on the lifted operands is accepted and IS the lifted
  1-d result;
* `conv1d_is_unfold_matmul`, `avgpool1d_is_unfold_mean`, `maxpool1d_is_unfold_max`: hence `unfold` of the lifted input followed
  by the matrix product with the reshaped weight / the mean / the max over the kernel axis, reshaped, IS the lifted 1-d result,
  with the entry formulas `conv1d(x,w)[n,o,t] = Σ_r wmat[o,r]·cols[n,r,t]`, `avg_pool1d(x)[n,c,t] = (Σ_q r4[n,c,q,t]) / k`,
  `max_pool1d(x)[n,c,t]` attained on and dominating `r4[n,c,:,t]` (same guards as in 2-d). -/
alias conv1d_is_conv2d_row := Proofs.Fused1d.conv1d_is_conv2d_row
alias avgpool1d_is_avgpool2d_row := Proofs.Fused1d.avgpool1d_is_avgpool2d_row
alias maxpool1d_is_maxpool2d_row := Proofs.Fused1d.maxpool1d_is_maxpool2d_row
alias conv1d_is_unfold_matmul := Proofs.Fused1d.conv1d_is_unfold_matmul
alias avgpool1d_is_unfold_mean := Proofs.Fused1d.avgpool1d_is_unfold_mean
alias maxpool1d_is_unfold_max := Proofs.Fused1d.maxpool1d_is_unfold_max

/-- non-vacuity: accepted 1-d calls (for max-pooling also the guards, with padding 1 and `−∞ := −100`) -/
example : ∃ y, conv1dForward (⟨[1, 1, 3], [1, 2, 3]⟩ : NDArray Int) ⟨[1, 1, 2], [1, 1]⟩ none 1 0 1 = some y := ⟨_, rfl⟩
example : ∃ y, avgPool1dForward (⟨[1, 1, 3], [1, 2, 3]⟩ : NDArray ℚ) 2 1 0 1 = some y := ⟨_, rfl⟩
example : (∃ y, maxPool1dForward (⟨[1, 1, 3], [1, 2, 3]⟩ : NDArray ℚ) (-100) 2 1 1 1 = some y) ∧
    (⟨[1, 1, 3], [1, 2, 3]⟩ : NDArray ℚ).shape.getD 0 0 ≠ 0 ∧ (⟨[1, 1, 3], [1, 2, 3]⟩ : NDArray ℚ).shape.getD 1 0 ≠ 0 ∧
    ∀ q, validIdx (⟨[1, 1, 3], [1, 2, 3]⟩ : NDArray ℚ).shape q → (-100 : ℚ) ≤ (⟨[1, 1, 3], [1, 2, 3]⟩ : NDArray ℚ).get q := by
  refine ⟨⟨_, rfl⟩, by decide, by decide, fun q hq => ?_⟩
  obtain ⟨i, j, t, rfl, hi, hj, ht⟩ := Proofs.ConvTools.validIdx3 hq
  have : i = 0 := by omega
  have : j = 0 := by omega
  subst_vars
  have : t = 0 ∨ t = 1 ∨ t = 2 := by omega
  rcases this with rfl | rfl | rfl <;> norm_num [NDArray.get, ravel, Shape.size]

/-! ## identities over ℝ through `exp` / `log`  (statements and proofs in `Proofs/FusedIdentities.lean`) -/
section Real
open Proofs.Calc Proofs.NL Proofs.Fused

/-- **log_softmax = log ∘ softmax** (mathematical `Real.log`), as arrays, for EVERY real array of any rank and any
    axis: the max-shifted `x − m − log Σ exp(x − m)` the kernel evaluates is the logarithm of every entry of the
    max-shifted quotient `exp(x − m) / Σ exp(x − m)`; the two kernels also reject exactly the same calls (axis out
    of range — on a 0-d operand every `dim` other than `0` / `−1`; there both accept and the sides are `0`, `log 1` —,
    empty axis), so there is no hypothesis. -/
theorem log_softmax_is_log_softmax (x : NDArray ℝ) (axis : Int) :
    logSoftmaxForward x axis = (softmaxForward x axis).map (fun s => s.map Real.log) :=
  Proofs.Fused.log_softmax_is_log_softmax x axis

/-- non-vacuity: an accepted call (both sides are `some`) -/
example : ∃ s, softmaxForward (⟨[2, 2], [1, 2, 3, 4]⟩ : NDArray ℝ) (-1) = some s := by
  simp [softmaxForward, normAxis, zeroDimAxis]
/-- the 0-d case (`dim` 0 / −1 on a 0-d operand, accepted by both kernels): `0 = log 1` -/
example : logSoftmaxForward (⟨[], [3]⟩ : NDArray ℝ) 0 = some ⟨[], [0]⟩ ∧
    (softmaxForward (⟨[], [3]⟩ : NDArray ℝ) 0).map (fun s => s.map Real.log) = some ⟨[], [Real.log 1]⟩ :=
  ⟨Proofs.NL.log_softmax_zero_dim _ rfl 0 (Or.inl rfl), by rw [Proofs.NL.softmax_zero_dim _ rfl 0 (Or.inl rfl)]; rfl⟩

/-- the same entry by entry on the accepted calls (valid axis, non-empty along it): both sides are accepted, well-formed,
    of the operand's shape, every softmax entry is positive and `log_softmax[i] = Real.log (softmax[i])` -/
theorem log_softmax_entries (x : NDArray ℝ) (axis : Int) (ax : Nat)
    (hax : normAxis x.shape.length axis = some ax) (hn : x.shape.getD ax 0 ≠ 0) :
    ∃ ls s, logSoftmaxForward x axis = some ls ∧ softmaxForward x axis = some s ∧
      ls.WF ∧ s.WF ∧ ls.shape = x.shape ∧ s.shape = x.shape ∧
      ∀ i, validIdx x.shape i → 0 < s.get i ∧ ls.get i = Real.log (s.get i) :=
  Proofs.Fused.log_softmax_entries x axis ax hax hn

example : ∃ ax, normAxis (⟨[2, 2], [1, 2, 3, 5]⟩ : NDArray ℝ).shape.length (-1) = some ax ∧
    (⟨[2, 2], [1, 2, 3, 5]⟩ : NDArray ℝ).shape.getD ax 0 ≠ 0 := ⟨1, by decide, by decide⟩

/-- **the LIBRARY's `log` of softmax is not log_softmax**: `log` computes `log(x + 1e-12)` (by design, DESIGN §12.4 D15),
    so on every accepted call and at every entry `log(softmax(x))[i] = log_softmax(x)[i] + Real.log (1 + ε / softmax(x)[i])`:
    strictly larger than `log_softmax(x)[i]`, by at most `ε / softmax(x)[i]` (`ε = 1e-12`). -/
theorem library_log_of_softmax (x : NDArray ℝ) (axis : Int) (ax : Nat)
    (hax : normAxis x.shape.length axis = some ax) (hn : x.shape.getD ax 0 ≠ 0) :
    ∃ ls s, logSoftmaxForward x axis = some ls ∧ softmaxForward x axis = some s ∧
      (logForward s).shape = ls.shape ∧
      ∀ i, validIdx x.shape i →
        (logForward s).get i = ls.get i + Real.log (1 + (epsilon : ℝ) / s.get i) ∧
        ls.get i < (logForward s).get i ∧
        (logForward s).get i - ls.get i ≤ (epsilon : ℝ) / s.get i :=
  Proofs.Fused.library_log_of_softmax x axis ax hax hn

/-- concrete witness: on `x = [0, 0]` the library composition `log(softmax(x))` differs from `log_softmax(x)` -/
theorem library_log_of_softmax_counterexample :
    ∃ (x : NDArray ℝ) (ls s : NDArray ℝ), x.WF ∧ logSoftmaxForward x 0 = some ls ∧ softmaxForward x 0 = some s ∧
      logForward s ≠ ls :=
  Proofs.Fused.library_log_of_softmax_counterexample

/-- **BCE-with-logits against BCE ∘ sigmoid, exact relation for arbitrary targets and broadcasting operands**: both
    composite kernels are accepted (exactly when the shapes broadcast, `bce_both_reject`), and with
    `gap = t·log(1 + ε/σ(x)) + (1−t)·log(1 + ε/(1−σ(x)))` (`ε = 1e-12`, the guard inside `bceForward`'s two logarithms;
    `Proofs.Fused.bceGap`) entry `i` of `BCE(sigmoid x, t)` is `BCEL(x, t)[i] − gap`, unless that number equals `−log ε`,
    in which case `bceForward`'s clamp turns it into `100`. -/
theorem bce_logits_vs_bce_sigmoid (x y : NDArray ℝ) (hx : x.WF) (s : Shape)
    (hs : broadcastShapes x.shape y.shape = some s) :
    ∃ l r, bceLogitsForward x y = some l ∧ bceForward (sigmoidForward x) y = some r ∧ l.shape = s ∧ r.shape = s ∧
      ∀ i, validIdx s i →
        r.get i = (let gap := bceGap (x.get (bcastIdx x.shape i)) (y.get (bcastIdx y.shape i))
          if l.get i - gap = -(Real.log (epsilon : ℝ)) then 100 else l.get i - gap) :=
  Proofs.Fused.bce_logits_vs_bce_sigmoid x y hx s hs

/-- non-vacuity: a (2,1) logit column against a (2,) target row broadcasts to (2,2) -/
example : (⟨[2, 1], [0.5, -3]⟩ : NDArray ℝ).WF ∧
    broadcastShapes (⟨[2, 1], [0.5, -3]⟩ : NDArray ℝ).shape (⟨[2], [0, 1]⟩ : NDArray ℝ).shape = some [2, 2] :=
  ⟨by simp [NDArray.WF, Shape.size], by decide⟩

/-- when the shapes do not broadcast, neither side is accepted -/
theorem bce_both_reject (x y : NDArray ℝ) (hs : broadcastShapes x.shape y.shape = none) :
    bceLogitsForward x y = none ∧ bceForward (sigmoidForward x) y = none :=
  Proofs.Fused.bce_both_reject x y hs

example : broadcastShapes (⟨[2], [0, 1]⟩ : NDArray ℝ).shape (⟨[3], [0, 1, 1]⟩ : NDArray ℝ).shape = none := by decide

/-- **BCE-with-logits against BCE ∘ sigmoid for targets in `[0,1]`** (a decidable condition on the target entries; over ℝ
    `sigmoid` lies strictly inside `(0,1)`, so `bceForward`'s clamp at `−log ε` is provably inactive): the naive equality
    is FALSE at every entry — `BCE(sigmoid x, t)[i] < BCEL(x, t)[i]` — the deviation is exactly `gap` and at most
    `ε·(t·(1+e^{−x}) + (1−t)·(1+e^{x}))`.  (In float64 `sigmoid` saturates to 0 or 1 for |x| ≳ 37 and the two sides then
    differ by far more; the check therefore compares them on moderate logits only.) -/
theorem bce_logits_vs_bce_sigmoid_unit_targets (x y : NDArray ℝ) (hx : x.WF) (s : Shape)
    (hs : broadcastShapes x.shape y.shape = some s)
    (hy : ∀ i, validIdx s i → 0 ≤ y.get (bcastIdx y.shape i) ∧ y.get (bcastIdx y.shape i) ≤ 1) :
    ∃ l r, bceLogitsForward x y = some l ∧ bceForward (sigmoidForward x) y = some r ∧ l.shape = s ∧ r.shape = s ∧
      ∀ i, validIdx s i →
        l.get i - r.get i = bceGap (x.get (bcastIdx x.shape i)) (y.get (bcastIdx y.shape i)) ∧
        r.get i < l.get i ∧
        l.get i - r.get i ≤ (epsilon : ℝ) * (y.get (bcastIdx y.shape i) * (1 + Real.exp (-(x.get (bcastIdx x.shape i)))) +
          (1 - y.get (bcastIdx y.shape i)) * (1 + Real.exp (x.get (bcastIdx x.shape i)))) :=
  Proofs.Fused.bce_logits_vs_bce_sigmoid_unit_targets x y hx s hs hy

/-- non-vacuity: logits `[0.5, −3]`, targets `[0, 1]` -/
example : (⟨[2], [0.5, -3]⟩ : NDArray ℝ).WF ∧
    broadcastShapes (⟨[2], [0.5, -3]⟩ : NDArray ℝ).shape (⟨[2], [0, 1]⟩ : NDArray ℝ).shape = some [2] ∧
    ∀ i, validIdx [2] i → 0 ≤ (⟨[2], [0, 1]⟩ : NDArray ℝ).get (bcastIdx [2] i) ∧
      (⟨[2], [0, 1]⟩ : NDArray ℝ).get (bcastIdx [2] i) ≤ 1 := by
  refine ⟨by simp [NDArray.WF, Shape.size], by decide, fun i hi => ?_⟩
  have : i = [0] ∨ i = [1] := by
    match i, hi with
    | [k], hk =>
      simp only [validIdx, and_true] at hk
      have : k = 0 ∨ k = 1 := by omega
      rcases this with rfl | rfl <;> simp
  rcases this with rfl | rfl <;> simp [bcastIdx, NDArray.get, ravel, Shape.size]

/-- the naive equality `BCE-with-logits = BCE ∘ sigmoid` is false of the kernels: logits `[0]`, targets `[1]` -/
theorem bce_logits_ne_bce_sigmoid_counterexample :
    ∃ (x y l r : NDArray ℝ), x.WF ∧ y.WF ∧ bceLogitsForward x y = some l ∧ bceForward (sigmoidForward x) y = some r ∧
      l ≠ r :=
  Proofs.Fused.bce_logits_ne_bce_sigmoid_counterexample

/-- without the guard the identity is exact: `−(t·log σ(x) + (1−t)·log(1−σ(x))) = (1−t)·x + log(1 + e^{−x})`, and the
    right-hand side is what the stabilised with-logits kernel evaluates (`Proofs.NL.bce_logits_scalar_eq`) -/
theorem bce_sigmoid_no_eps (x t : ℝ) :
    -(t * Real.log (sigm x) + (1 - t) * Real.log (1 - sigm x)) = (1 - t) * x + Real.log (1 + Real.exp (-x)) ∧
    bceLogitsScalar x t = (1 - t) * x + Real.log (1 + Real.exp (-x)) :=
  ⟨Proofs.Fused.bce_sigmoid_no_eps x t, bce_logits_scalar_eq _ x t⟩

end Real

/-! ## modules  (model definitions in `SynapModel/ModuleFwd.lean`, proofs in `Proofs/FusedModules.lean`) -/
section Modules
open Synap.Modules Synap.ModuleFwd Proofs.FusedMod

/-- **Sequential = composition of its modules**: the model of `Sequential(*modules)(x)` (the Python loop
    `out = module(inp); inp = out` over `submodules()`) is the left fold, in the `Option` monad with the state threaded,
    of the member forwards in registration (argument) order — for every list of module ids (repeated ids included),
    every member behaviour `call` (stateful, failing), and every world the container is built in. -/
theorem sequential_is_composition {σ τ : Type} (call : Nat → σ → τ → Option (σ × τ)) (w : World) (ks : List Nat) (st : σ) (x : τ) :
    sequentialForward call (sequential w ks).1 (sequential w ks).2 st x = ks.foldlM (fun acc k => call k acc.1 acc.2) (st, x) :=
  Proofs.FusedMod.sequential_is_composition call w ks st x

/-- on ANY module (however its `_submodules` registry came about): the fold over `submodules()` -/
theorem sequentialForward_eq_fold {σ τ : Type} (call : Nat → σ → τ → Option (σ × τ)) (w : World) (m : Nat) (st : σ) (x : τ) :
    sequentialForward call w m st x = (applyOrder w m).foldlM (fun acc k => call k acc.1 acc.2) (st, x) :=
  Proofs.FusedMod.sequentialForward_eq_fold call w m st x

/-- members that neither fail nor touch the state: plain function composition `f_{k_n} ∘ … ∘ f_{k_1}` -/
theorem sequential_is_function_composition {σ τ : Type} (f : Nat → τ → τ) (w : World) (ks : List Nat) (st : σ) (x : τ) :
    sequentialForward (fun k s t => some (s, f k t)) (sequential w ks).1 (sequential w ks).2 st x =
      some (st, ks.foldl (fun t k => f k t) x) :=
  Proofs.FusedMod.sequential_is_function_composition f w ks st x

/-- the empty `Sequential` is the identity (D32) and a one-member `Sequential` is that member -/
theorem sequential_nil_single {σ τ : Type} (call : Nat → σ → τ → Option (σ × τ)) (w : World) (k : Nat) (st : σ) (x : τ) :
    sequentialForward call (sequential w []).1 (sequential w []).2 st x = some (st, x) ∧
    sequentialForward call (sequential w [k]).1 (sequential w [k]).2 st x = call k st x :=
  Proofs.FusedMod.sequential_nil_single call w k st x

/-- `Sequential(*ks₁, *ks₂) = Sequential(*ks₂) ∘ Sequential(*ks₁)` -/
theorem sequential_append {σ τ : Type} (call : Nat → σ → τ → Option (σ × τ)) (w w1 w2 : World) (ks1 ks2 : List Nat) (st : σ) (x : τ) :
    sequentialForward call (sequential w (ks1 ++ ks2)).1 (sequential w (ks1 ++ ks2)).2 st x =
      (sequentialForward call (sequential w1 ks1).1 (sequential w1 ks1).2 st x).bind (fun r =>
        sequentialForward call (sequential w2 ks2).1 (sequential w2 ks2).2 r.1 r.2) :=
  Proofs.FusedMod.sequential_append call w w1 w2 ks1 ks2 st x

/-- **Sequential(OrderedDict) = composition of the dictionary's values in insertion order** (distinct keys) -/
theorem sequentialDict_is_composition {σ τ : Type} (call : Nat → σ → τ → Option (σ × τ)) (w : World) (ks : List (String × Nat))
    (hk : (ks.map (·.1)).Nodup) (st : σ) (x : τ) :
    sequentialForward call (sequentialDict w ks).1 (sequentialDict w ks).2 st x =
      (ks.map (·.2)).foldlM (fun acc k => call k acc.1 acc.2) (st, x) :=
  Proofs.FusedMod.sequentialDict_is_composition call w ks hk st x

/-- non-vacuity: three distinct names, one module object registered twice -/
example : (([("a", 0), ("b", 1), ("c", 0)] : List (String × Nat)).map (·.1)).Nodup := by decide

/-- a concrete run: the member with id `k` adds `k + 1`; `Sequential(m2, m0, m2)` maps `10` to `10 + 3 + 1 + 3` -/
example : sequentialForward (σ := Unit) (fun k s (t : Nat) => some (s, t + k + 1)) (sequential World.empty [2, 0, 2]).1
    (sequential World.empty [2, 0, 2]).2 () 10 = some ((), 17) := by decide

/-- **Neuron = Linear with one output**: `Neuron(in, bias)` IS the object `Linear(in, 1, bias)` — weight of shape
    `(1, in)`, bias of shape `(1,)` or absent — its forward is `Linear.forward`, i.e. `F.linear(x, weight, bias)` behind
    the `x.shape[1] == in_features` assertion (no activation), and by `linear_is_addmm` that is `x @ W.T (+ b)`. -/
theorem neuron_is_linear {β : Type} [Zero β] [Add β] [Mul β] (inF : Nat) (bias : Bool) (wv bv : List β) (x : NDArray β) :
    Neuron.init inF bias wv bv = Linear.init inF 1 bias wv bv ∧
    (Neuron.init inF bias wv bv).weight.shape = [1, inF] ∧
    (Neuron.init inF bias wv bv).bias.map (·.shape) = (if bias then some [1] else none) ∧
    Neuron.forward (Neuron.init inF bias wv bv) x = Linear.forward (Linear.init inF 1 bias wv bv) x ∧
    (x.shape[1]? = some inF →
      Neuron.forward (Neuron.init inF bias wv bv) x =
        linearForward x ⟨[1, inF], wv⟩ (if bias then some ⟨[1], bv⟩ else none)) ∧
    (x.shape[1]? ≠ some inF → Neuron.forward (Neuron.init inF bias wv bv) x = none) :=
  Proofs.FusedMod.neuron_is_linear inF bias wv bv x

/-- non-vacuity, and the value: a `Neuron(3)` with weights `[1,2,3]`, bias `[10]` on a `(2,3)` batch gives the `(2,1)` column
    of the two dot products plus the bias -/
example : Neuron.forward (Neuron.init 3 true [1, 2, 3] [10]) (⟨[2, 3], [1, 0, 0, 1, 1, 1]⟩ : NDArray Int) =
    some ⟨[2, 1], [11, 16]⟩ := by rfl

end Modules

/-! ## gradients  (proofs in `Proofs/FusedGrad.lean`) -/
section Grad
open Proofs.Adjoint Proofs.NL

/-- **equal forwards have equal backwards (linear ops, any commutative ring)**: if `F` and `G` agree on every well-formed
    operand of shape `sa`, `B_F` is an adjoint (`IsAdjoint`: the VJP of a linear map, total, right shape) of `F` and `B_G`
    one of `G`, then `B_F g = B_G g` for every upstream gradient `g`. -/
theorem grad_eq_of_forward_eq {S : Type} [CommRing S] (sa sy : Shape) (F G BF BG : NDArray S → Option (NDArray S))
    (hF : IsAdjoint sa sy F BF) (hG : IsAdjoint sa sy G BG)
    (hFG : ∀ v : NDArray S, v.WF → v.shape = sa → F v = G v)
    (g : NDArray S) (hg : g.WF) (hs : g.shape = sy) : BF g = BG g :=
  Proofs.FusedGrad.adjoint_grad_eq_of_forward_eq sa sy F G BF BG hF hG hFG g hg hs

/-- non-vacuity: `neg` and `v ↦ −v` written twice satisfy the hypotheses (`Props.C01.neg_vjp`) -/
example : IsAdjoint (R := Int) [2] [2] (fun v => some (negForward v)) (fun g => some (negBackward g)) :=
  Proofs.Adjoint.neg_adj [2]

/-- **equal forwards have equal backwards (nonlinear ops over ℝ)**: the same with `IsVJPAt` (derivative of
    `t ↦ ⟪F(a + t·v), g⟫` at 0 is `⟪v, B g⟫` for every direction `v`) at the point `a`. -/
theorem vjp_grad_eq_of_forward_eq (F G : NDArray ℝ → Option (NDArray ℝ)) (a : NDArray ℝ) (ha : a.WF) (sy : Shape)
    (BF BG : NDArray ℝ → Option (NDArray ℝ)) (hF : IsVJPAt F a sy BF) (hG : IsVJPAt G a sy BG)
    (hFG : ∀ z : NDArray ℝ, z.WF → z.shape = a.shape → F z = G z)
    (g : NDArray ℝ) (hg : g.WF) (hs : g.shape = sy) : BF g = BG g :=
  Proofs.FusedGrad.vjpAt_grad_eq_of_forward_eq F G a ha sy BF BG hF hG hFG g hg hs

/-- **chain rule for a linear op after a nonlinear one**: the composition side of an identity has a VJP made of the
    members' backward kernels in reverse order (for two linear ops: `Proofs.Adjoint.IsAdjoint.comp`) -/
theorem vjp_comp_adjoint {F B L BL : NDArray ℝ → Option (NDArray ℝ)} {a : NDArray ℝ} {sm sy : Shape}
    (hF : IsVJPAt F a sm B) (hL : IsAdjoint sm sy L BL) :
    IsVJPAt (fun x => (F x).bind L) a sy (fun g => (BL g).bind B) :=
  Proofs.FusedGrad.IsVJPAt.comp_adjoint hF hL

/-- **gradient of cross-entropy = gradient of NLL ∘ log_softmax**: for every accepted call and every upstream gradient the
    fused backward kernel returns exactly what the chain rule through `nll_loss` and `log_softmax` returns -/
theorem cross_entropy_grad_is_nll_log_softmax_grad (x y ls : NDArray ℝ) (labels : List Nat) (hx : x.WF)
    (h : crossEntropyForward x labels = some y) (hls : logSoftmaxForward x 1 = some ls)
    (g : NDArray ℝ) (hg : g.WF) (hgs : g.shape = y.shape) :
    crossEntropyBackward g x labels = logSoftmaxBackward (nllBackward g ls labels) ls 1 :=
  Proofs.FusedGrad.cross_entropy_grad_is_nll_log_softmax_grad x y ls labels hx h hls g hg hgs

example : ∃ y ls, crossEntropyForward (⟨[2, 2], [1, 2, 3, 4]⟩ : NDArray ℝ) [0, 1] = some y ∧
    logSoftmaxForward (⟨[2, 2], [1, 2, 3, 4]⟩ : NDArray ℝ) 1 = some ls := by
  simp [crossEntropyForward, logSoftmaxForward, normAxis, zeroDimAxis, nllForward, Proofs.Core.ofFn_shape]

/-- **gradients of linear = gradients of `x @ transpose(W)`**, both operands: w.r.t. `x` the `matmul` backward (left
    operand); w.r.t. `W` the `matmul` backward (right operand) followed by the `transpose` backward -/
theorem linear_grads_are_matmul_grads {S : Type} [CommRing S] (x w wt y : NDArray S) (hx : x.WF) (hw : w.WF)
    (h : linearForward x w none = some y) (hwt : transposeForward w 0 1 = some wt)
    (g : NDArray S) (hg : g.WF) (hgs : g.shape = y.shape) :
    (linearBackward g x w none).map (·.1) = (matmulBackward g x wt).map (·.1) ∧
    (linearBackward g x w none).map (·.2.1) = ((matmulBackward g x wt).map (·.2)).bind (fun gwt => transposeBackward gwt 0 1) :=
  ⟨Proofs.FusedGrad.linear_grad_x_is_matmul_grad x w wt y hx hw h hwt g hg hgs,
   Proofs.FusedGrad.linear_grad_w_is_transpose_matmul_grad x w wt y hx hw h hwt g hg hgs⟩

example : ∃ y wt, linearForward (⟨[1, 2], [1, 2]⟩ : NDArray Int) ⟨[3, 2], [1, 2, 3, 4, 5, 6]⟩ none = some y ∧
    transposeForward (⟨[3, 2], [1, 2, 3, 4, 5, 6]⟩ : NDArray Int) 0 1 = some wt := ⟨_, _, rfl, rfl⟩

/-- **gradient of mean = gradient of sum / count**: the fused backward kernel returns what the chain rule through "divide
    by the count" and `sum` returns -/
theorem mean_grad_is_sum_div_grad {F : Type} [Field F] (a y : NDArray F) (ax : Axes) (keep : Bool) (axes : List Nat) (ha : a.WF)
    (h : meanForward a ax keep = some y) (hax : ax.norm a.shape.length = some axes)
    (g : NDArray F) (hg : g.WF) (hgs : g.shape = y.shape) :
    meanBackward g a.shape ax keep =
      sumBackward (g.map (· / (((axes.map (fun k => a.shape.getD k 0)).foldr (· * ·) 1 : Nat) : F))) a.shape ax keep :=
  Proofs.FusedGrad.mean_grad_is_sum_div_grad a y ax keep axes ha h hax g hg hgs

example : ∃ y axes, meanForward (⟨[2, 2], [1, 2, 3, 4]⟩ : NDArray ℝ) (.one 1) false = some y ∧
    (Axes.one 1).norm (⟨[2, 2], [1, 2, 3, 4]⟩ : NDArray ℝ).shape.length = some axes := by
  simp [meanForward, Np.sum, Axes.norm, Axes.normRed, normAxis]

end Grad

end Props.C14
