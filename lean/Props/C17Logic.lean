import Proofs.EngineLogicTraversal
import Proofs.EngineLogicFlags
/-!
# C17 — the decision logic of `tensor.py`, read from the source on this run, is the logic of the engine model

`Synap.Gen.Engine.*` (file `SynapModel/Generated/EngineLogic.lean`) is regenerated from `/repo/synapgrad/tensor.py` by
`harness/engine_logic.py` every time a check runs.  The statements (with their proofs) are in `Proofs/EngineLogicTie.lean`;
they are re-exported here because they belong to this property: the traversal is the explicit-stack loop (no recursion) whose turn consumes one child edge or pops one node.
-/
namespace Props.C17
open Proofs.EngineLogicTie

/-- the loop keeps (node, iterator) frames and resumes the iterator: one turn per child edge plus one per node -/
theorem src_explicit_stack_skeleton : type_of% @Proofs.EngineLogicTie.traversal_skeleton_is_modelled := @Proofs.EngineLogicTie.traversal_skeleton_is_modelled

/-- one turn of the machine, with the source push condition -/
theorem src_explicit_stack_step : type_of% @Proofs.EngineLogicTie.stackStep_uses_src := @Proofs.EngineLogicTie.stackStep_uses_src

/-! The second half of the property (results computed while gradients are not tracked keep no history) rests on the creation rule and
on the grad-mode contexts doing what the model says: a `no_grad` object re-records the mode in force when it is *entered* and restores
exactly that on exit, however it was constructed and however often it is re-used. -/

/-- what `Tensor.__init__` keeps of the operands, and the flag of the result, as read from the source -/
theorem src_creation_rule_is_model : type_of% @Proofs.EngineLogicTie.mkTensor_uses_src := @Proofs.EngineLogicTie.mkTensor_uses_src

/-- constructing a context object -/
theorem src_ctx_new_is_model : type_of% @Proofs.EngineLogicTie.ctxNew_uses_src := @Proofs.EngineLogicTie.ctxNew_uses_src

/-- entering it records the mode in force at entry -/
theorem src_ctx_enter_is_model : type_of% @Proofs.EngineLogicTie.ctxEnter_uses_src := @Proofs.EngineLogicTie.ctxEnter_uses_src

/-- leaving it (normally or by an exception) restores the recorded mode -/
theorem src_ctx_exit_is_model : type_of% @Proofs.EngineLogicTie.ctxExit_uses_src := @Proofs.EngineLogicTie.ctxExit_uses_src

end Props.C17
