import Proofs.EngineLogicTraversal
/-!
# C17 — the decision logic of `tensor.py`, read from the source on this run, is the logic of the engine model

`Synap.Gen.Engine.*` (file `SynapModel/Generated/EngineLogic.lean`) is regenerated from `/repo/synapgrad/tensor.py` by
`harness/engine_logic.py` every time a check runs.  The statements (with their proofs) are in `Proofs/EngineLogicTie.lean`;
they are re-exported here because they belong to this property: the traversal is the explicit-stack loop (no recursion) whose turn consumes one child edge or pops one node.
-/
namespace Props.C17
open Proofs.EngineLogicTie

/-- the loop keeps (node, iterator) frames and resumes the iterator: one turn per child edge plus one per node -/
theorem src_explicit_stack_skeleton : type_of% @Proofs.EngineLogicTie.traversal_skeleton_is_modelled := @Proofs.EngineLogicTie.traversal_skeleton_is_modelled

/-- one turn of the machine, with the source push condition -/
theorem src_explicit_stack_step : type_of% @Proofs.EngineLogicTie.stackStep_uses_src := @Proofs.EngineLogicTie.stackStep_uses_src

end Props.C17
