import SynapModel.Ops
namespace Props.C06
theorem placeholder : True := trivial
end Props.C06
