import Props.C06Formulas
import Proofs.Core
import Proofs.NNSpecLemmas
import SynapModel.Ops
import SynapModel.LayerArgs
import Mathlib.Algebra.Order.Field.Basic
import Proofs.SpecNN
/-!
# C06 — Forward results of nn ops / layers / losses match their documented definitions

Statements about `Synap.Kernels` (NN part) and `Synap.LayerArgs`, for every input size, channel
count, batch size and every geometry.
-/
namespace Props.C06
open Synap Synap.NDArray Synap.Np Synap.Kernels Synap.LayerArgs Proofs.Core Proofs.NNSpec

/-- **Output length `⌊(L + 2p − d(k−1) − 1)/s⌋ + 1`**: exactly the number of window positions that
    fit into the padded input, and no output (rejection) exactly when not even one window fits. -/
theorem conv_out_size (L k s p d : Nat) (hk : 0 < k) (hs : 0 < s) (hd : 0 < d) :
    (convOut L k s p d = none ↔ L + 2 * p < d * (k - 1) + 1) ∧
    (∀ n, convOut L k s p d = some n →
      n = (L + 2 * p - d * (k - 1) - 1) / s + 1 ∧ 0 < n ∧
      ∀ t, t < n ↔ t * s + d * (k - 1) + 1 ≤ L + 2 * p) := by
  have hne : ¬ (k = 0 ∨ s = 0 ∨ d = 0) := by omega
  unfold convOut
  rw [if_neg hne]
  generalize d * (k - 1) = D
  constructor
  · by_cases h : L + 2 * p < D + 1
    · simp [h]
    · simp [h]
  · intro n hn
    by_cases h : L + 2 * p < D + 1
    · simp [h] at hn
    · rw [if_neg h] at hn
      have hn' := Option.some.inj hn
      subst hn'
      refine ⟨rfl, Nat.succ_pos _, fun t => ?_⟩
      rw [Nat.lt_succ_iff, Nat.le_div_iff_mul_le hs]
      omega

/-- a window offset reads the input at `t·s + a·d − p` when that lies inside, padding otherwise -/
theorem winPos_spec (L s p d t a : Nat) :
    (∀ q, winPos L s p d t a = some q ↔ (p ≤ t * s + a * d ∧ q = t * s + a * d - p ∧ q < L)) := by
  intro q
  unfold winPos
  simp only []
  by_cases h1 : t * s + a * d < p
  · rw [if_pos h1]
    constructor
    · intro h; cases h
    · rintro ⟨h, _⟩; omega
  · rw [if_neg h1]
    by_cases h2 : t * s + a * d - p < L
    · rw [if_pos h2]
      constructor
      · intro h
        have := Option.some.inj h
        exact ⟨by omega, this.symm, by omega⟩
      · rintro ⟨_, rfl, _⟩; rfl
    · rw [if_neg h2]
      constructor
      · intro h; cases h
      · rintro ⟨_, rfl, h⟩; exact absurd h h2

variable {K : Type} [Field K] [LinearOrder K] [IsStrictOrderedRing K]

/-- **conv1d is a cross-correlation**: `out[n,o,t] = b[o] + Σ_{c,a} w[o,c,a]·xpad[n,c,t·s+a·d]`,
    of shape `(N, C_out, L_out)`. -/
theorem conv1d_is_cross_correlation (x w y : NDArray K) (b : Option (NDArray K)) (s p d : Nat)
    (h : conv1dForward x w b s p d = some y) :
    ∃ n c l co k lo, x.shape = [n, c, l] ∧ w.shape = [co, c, k] ∧ convOut l k s p d = some lo ∧ y.shape = [n, co, lo] ∧
      ∀ bn o t, bn < n → o < co → t < lo →
        y.get [bn, o, t] =
          ((List.range c).flatMap (fun cc => (List.range k).map (fun a =>
            w.get [o, cc, a] * readPad1 x 0 bn cc (winPos l s p d t a)))).sum
          + (match b with | some bv => bv.data.getD o 0 | none => 0) := by
  unfold conv1dForward at h
  split at h
  · rename_i n c l co ci k hxs hws
    by_cases hci : ci ≠ c
    · rw [if_pos hci] at h; cases h
    · rw [if_neg hci] at h
      have hci' : ci = c := by simpa using hci
      subst hci'
      split at h
      · cases h
      · rename_i lo hlo
        split_ifs at h
        have hy := Option.some.inj h
        subst hy
        refine ⟨n, ci, l, co, k, lo, hxs, hws, hlo, rfl, ?_⟩
        intro bn o t hbn ho ht
        rw [get_ofFn _ _ _ (by simp [validIdx, hbn, ho, ht])]
        cases b <;> simp [getI]
  · cases h

/-- **padding='same' preserves the length** for stride 1 whenever `d·(k−1)` is even (otherwise the
    layer is rejected, since only symmetric padding is available). -/
theorem same_preserves_length (k d L : Nat) (hk : 0 < k) (hd : 0 < d) (hL : 0 < L) :
    ((d * (k - 1)) % 2 = 0 → ∃ p, conv1dArgs k 1 none d = some (k, 1, p, d) ∧ convOut L k 1 p d = some L) ∧
    ((d * (k - 1)) % 2 ≠ 0 → conv1dArgs k 1 none d = none) ∧
    (∀ s, s ≠ 1 → conv1dArgs k s none d = none) := by
  refine ⟨?_, ?_, ?_⟩
  · intro he
    refine ⟨d * (k - 1) / 2, ?_, convOut_same L k d hk hd hL he⟩
    simp [conv1dArgs, he]
  · intro hne
    simp [conv1dArgs, hne]
  · intro s hs
    simp [conv1dArgs, hs]

theorem same_preserves_size_2d (k d : IT) (H W : Nat) (hH : 0 < H) (hW : 0 < W)
    (hk : 0 < k.bc.1 ∧ 0 < k.bc.2) (hd : 0 < d.bc.1 ∧ 0 < d.bc.2) (g : Geo2)
    (h : conv2dArgs k (.int 1) .same d = some g) : outSize2 g H W = some (H, W) := by
  unfold conv2dArgs at h
  simp only [] at h
  have hs : (IT.int 1).bc = (1, 1) := rfl
  rw [hs] at h
  rw [if_neg (by simp)] at h
  split_ifs at h with hodd
  have hg := Option.some.inj h
  subst hg
  have he1 : (d.bc.1 * (k.bc.1 - 1)) % 2 = 0 := by omega
  have he2 : (d.bc.2 * (k.bc.2 - 1)) % 2 = 0 := by omega
  unfold outSize2
  simp only []
  rw [convOut_same H _ _ hk.1 hd.1 hH he1, convOut_same W _ _ hk.2 hd.2 hW he2]

/-- **int-or-tuple arguments and default stride**: an int means the same value on both axes; a
    pooling layer without stride uses its kernel size. -/
theorem pool_default_stride (k : IT) (p d : IT) (k1 p1 d1 : Nat) :
    (pool2dArgs k none p d).s = k.bc ∧ (pool2dArgs k none p d).k = k.bc ∧
    (IT.int k1).bc = (k1, k1) ∧ pool1dArgs k1 none p1 d1 = (k1, k1, p1, d1) := by
  exact ⟨rfl, rfl, rfl, rfl⟩

/-- **Max pooling: padding never wins.**  Whenever a window contains at least one real input
    position, the pooled value is the value at a real position of that window and dominates every
    real position of the window (the −∞ padding is never selected). -/
theorem maxpool_padding_never_wins (x y : NDArray K) (negInf : K) (k s p d : Nat)
    (h : maxPool1dForward x negInf k s p d = some y) (n c l lo : Nat) (hx : x.shape = [n, c, l])
    (hlo : convOut l k s p d = some lo) (bn cc t : Nat) (hbn : bn < n) (hcc : cc < c) (ht : t < lo)
    (hreal : ∃ a q, a < k ∧ winPos l s p d t a = some q) :
    (∃ a q, a < k ∧ winPos l s p d t a = some q ∧ y.get [bn, cc, t] = x.get [bn, cc, q]) ∧
    (∀ a q, a < k → winPos l s p d t a = some q → x.get [bn, cc, q] ≤ y.get [bn, cc, t]) := by
  have hgeo : poolGeom1 x k s p d = some (n, c, l, lo) := by
    simp [poolGeom1, hx, hlo]
  simp only [maxPool1dForward, hgeo, Option.bind_eq_bind, Option.bind_some, Option.pure_def,
    Option.some.injEq] at h
  subst h
  rw [get_ofFn _ _ _ (by simp [validIdx, hbn, hcc, ht])]
  simp only [getI, List.getD_cons_zero, List.getD_cons_succ]
  -- the window values
  have hvals : ∀ (a : Nat) (w : K),
      ((List.range k).map (fun a => (winPos l s p d t a).map (fun q => x.get [bn, cc, q])))[a]? = some (some w) ↔
        a < k ∧ ∃ q, winPos l s p d t a = some q ∧ x.get [bn, cc, q] = w := by
    intro a w
    rw [List.getElem?_map]
    by_cases ha : a < k
    · rw [List.getElem?_range ha]
      simp [ha, Option.map_eq_some_iff]
    · rw [List.getElem?_eq_none (by simpa using ha)]
      simp [ha]
  obtain ⟨a0, q0, ha0, hq0⟩ := hreal
  obtain ⟨v, kk, hfm, hk1, hk2⟩ := firstMax_spec
    ((List.range k).map (fun a => (winPos l s p d t a).map (fun q => x.get [bn, cc, q])))
    ⟨a0, x.get [bn, cc, q0], (hvals a0 _).2 ⟨ha0, q0, hq0, rfl⟩⟩
  rw [hfm]
  simp only []
  constructor
  · obtain ⟨hlt, q, hq, hv⟩ := (hvals kk v).1 hk1
    exact ⟨kk, q, hlt, hq, hv.symm⟩
  · intro a q ha hq
    exact hk2 a _ ((hvals a _).2 ⟨ha, q, hq, rfl⟩)

/-- **Average pooling counts the padded zeros**: the sum of the window (padding read as 0) divided
    by the full kernel size `k`. -/
theorem avgpool_counts_padding (x y : NDArray K) (k s p d : Nat) (h : avgPool1dForward x k s p d = some y)
    (n c l lo : Nat) (hx : x.shape = [n, c, l]) (hlo : convOut l k s p d = some lo)
    (bn cc t : Nat) (hbn : bn < n) (hcc : cc < c) (ht : t < lo) :
    y.get [bn, cc, t] = ((List.range k).map (fun a => readPad1 x 0 bn cc (winPos l s p d t a))).sum / (k : K) := by
  have hgeo : poolGeom1 x k s p d = some (n, c, l, lo) := by
    simp [poolGeom1, hx, hlo]
  simp only [avgPool1dForward, hgeo, Option.bind_eq_bind, Option.bind_some, Option.pure_def,
    Option.some.injEq] at h
  subst h
  rw [get_ofFn _ _ _ (by simp [validIdx, hbn, hcc, ht])]
  simp only [getI, List.getD_cons_zero, List.getD_cons_succ]

/-- **Loss value and reductions**: NLL picks minus the prediction at the label, one value per
    sample (shape `(N,)`). -/
theorem nll_spec (p y : NDArray K) (labels : List Nat) (h : nllForward p labels = some y) :
    ∃ n c, p.shape = [n, c] ∧ y.shape = [n] ∧ labels.length = n ∧
      ∀ i, i < n → y.get [i] = - p.get [i, labels.getD i 0] := by
  unfold nllForward at h
  split at h
  · rename_i n c hps
    split_ifs at h with hl
    have hy := Option.some.inj h
    subst hy
    refine ⟨n, c, hps, rfl, hl.1, ?_⟩
    intro i hi
    rw [get_ofFn _ _ _ (by simp [validIdx, hi])]
    simp only [getI, List.getD_cons_zero]
  · cases h

/-! ### 2-d convolution and pooling, softmax family, losses: acceptance, shape, entry formula

Statements and proofs in `Proofs/SpecNN.lean` (specification theorems and their `sn_` helpers only), re-exported here:
* `convOut_eq_some_iff`            `convOut L k s p d = some n ⇔ 0<k ∧ 0<s ∧ 0<d ∧ d(k−1)+1 ≤ L+2p ∧ n = (L+2p−d(k−1)−1)/s + 1`
* `conv2d_accepts_iff`, `conv2d_is_cross_correlation`   `out[n,o,i,j] = b[o] + Σ_{c,a,b} w[o,c,a,b]·xpad[n,c,i·sH+a·dH, j·sW+b·dW]`
* `pool2d_accepts_iff`, `avgpool2d_counts_padding`, `maxpool2d_padding_never_wins`
* `softmax_accepts_iff`, `softmax_spec` (any axis; positive entries, every fibre sums to 1, equal to the unshifted formula), `log_softmax_spec`;
  the 0-d operand with `dim` 0 / −1 (accepted, as NumPy's reductions accept these two int axes on a 0-d array): `softmax_zero_dim_accepts`,
  `softmax_zero_dim` (value 1), `log_softmax_zero_dim` (value 0), `*_zero_dim_backward`, `*_zero_dim_grad` (gradient 0 for every upstream gradient)
* `mse_spec`, `nll_accepts_iff`, `nll_forward_spec`, `cross_entropy_spec` (`out[n] = −(x[n,label] − log Σ_j exp x[n,j])`) -/
alias convOut_eq_some_iff := Proofs.SpecNN.convOut_eq_some_iff
alias conv2d_accepts_iff := Proofs.SpecNN.conv2d_accepts_iff
alias conv2d_is_cross_correlation := Proofs.SpecNN.conv2d_is_cross_correlation
alias pool2d_accepts_iff := Proofs.SpecNN.pool2d_accepts_iff
alias avgpool2d_counts_padding := Proofs.SpecNN.avgpool2d_counts_padding
alias maxpool2d_padding_never_wins := Proofs.SpecNN.maxpool2d_padding_never_wins
alias softmax_accepts_iff := Proofs.SpecNN.softmax_accepts_iff
alias softmax_spec := Proofs.SpecNN.softmax_spec
alias log_softmax_spec := Proofs.SpecNN.log_softmax_spec
alias softmax_zero_dim_accepts := Proofs.SpecNN.softmax_zero_dim_accepts
alias softmax_zero_dim := Proofs.NL.softmax_zero_dim
alias log_softmax_zero_dim := Proofs.NL.log_softmax_zero_dim
alias softmax_zero_dim_backward := Proofs.NL.softmax_zero_dim_backward
alias softmax_zero_dim_grad := Proofs.NL.softmax_zero_dim_grad
alias log_softmax_zero_dim_backward := Proofs.NL.log_softmax_zero_dim_backward
alias log_softmax_zero_dim_grad := Proofs.NL.log_softmax_zero_dim_grad
alias mse_spec := Proofs.SpecNN.mse_spec
alias nll_accepts_iff := Proofs.SpecNN.nll_accepts_iff
alias nll_forward_spec := Proofs.SpecNN.nll_forward_spec
alias cross_entropy_spec := Proofs.SpecNN.cross_entropy_spec

end Props.C06
