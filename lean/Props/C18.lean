import Props.C18Logic
import SynapModel.Data
/-!
# C18 — Dataset split, batching and one-hot encoding lose or misalign no sample

Statements about `Synap.Data` (the model of synapgrad/nn/utils/data.py) for every dataset length,
every pair of floor-rule sizes, every shuffle (any list of positions), every batch size.
-/
namespace Props.C18
open Synap.Data

/-- **Partition.** test ++ val ++ train is *literally* the (possibly shuffled) index list: every
    sample is in exactly one part and nothing is lost or duplicated. -/
theorem split_concat (idx : List Nat) (k : Nat) (kv : Option (Nat → Nat)) :
    let s := splitIndices idx k kv
    s.test ++ (s.val.getD []) ++ s.train = idx := by
  cases kv with
  | none => simp [splitIndices]
  | some f => simp only [splitIndices, Option.getD_some, List.append_assoc, List.take_append_drop]

/-- **Floor-rule sizes** with Python's saturating slices. -/
theorem split_sizes (idx : List Nat) (k : Nat) (kv : Option (Nat → Nat)) :
    let s := splitIndices idx k kv
    s.test.length = min k idx.length ∧
    (∀ f, kv = some f → (s.val.getD []).length = min (f (idx.length - k)) (idx.length - k)) ∧
    (kv = none → s.val = none) ∧
    s.train.length + s.test.length + (s.val.getD []).length = idx.length := by
  cases kv with
  | none => simp [splitIndices]; omega
  | some f =>
    refine ⟨by simp [splitIndices], ?_, by simp, ?_⟩
    · intro g hg; cases hg; simp [splitIndices]
    · simp only [splitIndices, List.length_take, List.length_drop, Option.getD_some]; omega

/-- **Shuffle.** If the index list is a permutation of `0..n-1` then so is the concatenation of
    the parts; with `shuffle = False` (`idx = range n`) each part is a contiguous, increasing run. -/
theorem split_perm (n : Nat) (idx : List Nat) (h : idx.Perm (List.range n)) (k : Nat)
    (kv : Option (Nat → Nat)) :
    let s := splitIndices idx k kv
    (s.test ++ (s.val.getD []) ++ s.train).Perm (List.range n) := by
  intro s
  have := split_concat idx k kv
  simp only at this
  rw [this]; exact h

theorem split_order (n k : Nat) (kv : Option (Nat → Nat)) :
    let s := splitIndices (List.range n) k kv
    s.test = List.range (min k n) := by
  cases kv <;> simp [splitIndices, List.take_range]

/-- **floor(n / batch_size) batches.** -/
theorem loader_len_floor (nx ny b : Nat) (hb : 0 < b) :
    ∃ bs, loaderBatches nx ny b = some bs ∧ bs.length = ny / b := by
  have : b ≠ 0 := Nat.pos_iff_ne_zero.mp hb
  simp [loaderBatches, loaderLen, this]

theorem drop_take_range (n s b : Nat) (h : s + b ≤ n) :
    ((List.range n).drop s).take b = (List.range b).map (· + s) := by
  apply List.ext_getElem
  · simp; omega
  · intro i h1 h2
    simp at h1 h2 ⊢
    omega

/-- **Exactly `batch_size` consecutive, aligned samples** in every batch the loader yields. -/
theorem loader_batch_exact (n b i : Nat) (hi : i < n / b) :
    loaderItem n n b i = ((List.range b).map (· + i * b), (List.range b).map (· + i * b)) := by
  have hb : 0 < b := by
    rcases Nat.eq_zero_or_pos b with h | h
    · subst h; simp at hi
    · exact h
  have h1 : (i + 1) * b ≤ n := by
    calc (i + 1) * b ≤ (n / b) * b := Nat.mul_le_mul_right _ hi
      _ ≤ n := Nat.div_mul_le_self n b
  have : i * b + b ≤ n := by rw [Nat.succ_mul] at h1; exact h1
  simp [loaderItem, drop_take_range n (i * b) b this]

/-- the batches cover the first `floor(n/b)·b` samples, in order, each once -/
theorem loader_covers_prefix (n b : Nat) (hb : 0 < b) :
    ∃ bs, loaderBatches n n b = some bs ∧
      (bs.map (·.2)).flatten = List.range ((n / b) * b) := by
  have hb0 : b ≠ 0 := Nat.pos_iff_ne_zero.mp hb
  refine ⟨(List.range (n / b)).map (loaderItem n n b), by simp [loaderBatches, loaderLen, hb0], ?_⟩
  have key : ∀ m, m ≤ n / b →
      (((List.range m).map (loaderItem n n b)).map (·.2)).flatten = List.range (m * b) := by
    intro m
    induction m with
    | zero => simp
    | succ m ih =>
      intro hm
      rw [List.range_succ, List.map_append, List.map_append, List.flatten_append, ih (by omega)]
      simp only [List.map_cons, List.map_nil, List.flatten_cons, List.flatten_nil, List.append_nil]
      rw [loader_batch_exact n b m (by omega)]
      simp only
      rw [Nat.succ_mul]
      apply List.ext_getElem
      · simp
      · intro i h1 h2
        simp only [List.length_append, List.length_range, List.length_map] at h1
        by_cases hlt : i < m * b
        · simp [List.getElem_append_left, hlt]
        · rw [List.getElem_append_right (by simpa using Nat.le_of_not_lt hlt)]
          simp; omega
  exact key (n / b) (Nat.le_refl _)

/-- **One-hot.** Every row has one entry per distinct label and a single 1, at the position of
    the label in the sorted list of distinct labels. -/
theorem oneHot_row (ys : List Int) (r : List Nat) (hr : r ∈ oneHot ys) :
    r.length = (uniques ys).length ∧
    ∃ y ∈ ys, ∀ k, k < r.length → r[k]? = some (if (uniques ys).idxOf y = k then 1 else 0) := by
  simp only [oneHot, List.mem_map] at hr
  obtain ⟨y, hy, rfl⟩ := hr
  refine ⟨by simp, y, hy, ?_⟩
  intro k hk
  simp at hk ⊢
  simp [hk]

theorem mem_insertUniq (y z : Int) (l : List Int) : z ∈ insertUniq y l ↔ z = y ∨ z ∈ l := by
  induction l with
  | nil => simp [insertUniq]
  | cons x xs ih =>
    unfold insertUniq
    split
    · simp
    · split
      · rename_i h; subst h; simp
      · simp [ih]; constructor <;> rintro (h | h | h) <;> simp [h]

/-- every label occurs in `uniques`, so its one-hot position is a valid column -/
theorem mem_uniques (ys : List Int) (y : Int) : y ∈ uniques ys ↔ y ∈ ys := by
  induction ys with
  | nil => simp [uniques]
  | cons a t ih =>
    simp only [uniques, List.foldr_cons] at ih ⊢
    rw [mem_insertUniq, ih]; simp

theorem oneHot_position_valid (ys : List Int) (y : Int) (hy : y ∈ ys) :
    (uniques ys).idxOf y < (uniques ys).length :=
  List.idxOf_lt_length_iff.mpr ((mem_uniques ys y).mpr hy)

theorem insertUniq_sorted (y : Int) (l : List Int) (h : l.Pairwise (· < ·)) :
    (insertUniq y l).Pairwise (· < ·) := by
  induction l with
  | nil => simp [insertUniq]
  | cons x xs ih =>
    unfold insertUniq
    obtain ⟨h1, h2⟩ := List.pairwise_cons.mp h
    split
    · rename_i hlt
      refine List.pairwise_cons.mpr ⟨?_, h⟩
      intro z hz
      rcases List.mem_cons.mp hz with rfl | hz
      · exact hlt
      · exact Int.lt_trans hlt (h1 z hz)
    · split
      · exact h
      · rename_i hnlt hne
        refine List.pairwise_cons.mpr ⟨?_, ih h2⟩
        intro z hz
        rcases (mem_insertUniq y z xs).mp hz with rfl | hz
        · omega
        · exact h1 z hz

/-- `uniques` is strictly increasing: sorted, without duplicates (the column order of one-hot) -/
theorem uniques_sorted (ys : List Int) : (uniques ys).Pairwise (· < ·) := by
  induction ys with
  | nil => simp [uniques]
  | cons a t ih => exact insertUniq_sorted a _ ih

/-! ### labels of any ordered type: only their ORDER matters

`oneHot` is stated over integer labels and compares them exactly.  Labels of another type (floats, strings, booleans,
integers of any width) reach it through a strictly increasing injection into the integers — the check uses the
sign-magnitude bit pattern of a float and the positional value of a string's code points.  This is harmless: re-labelling
through ANY strictly increasing map leaves every one-hot row unchanged, so the rows are a function of the order type of the
label list alone (two labels get the same column iff they are equal — however close they are — and columns follow `<`). -/

theorem strictMono_lt_iff (f : Int → Int) (hf : ∀ a b, a < b → f a < f b) (a b : Int) : f a < f b ↔ a < b := by
  constructor
  · intro h
    rcases Int.lt_trichotomy a b with h' | h' | h'
    · exact h'
    · subst h'; omega
    · have := hf b a h'; omega
  · exact hf a b

theorem strictMono_eq_iff (f : Int → Int) (hf : ∀ a b, a < b → f a < f b) (a b : Int) : f a = f b ↔ a = b := by
  constructor
  · intro h
    rcases Int.lt_trichotomy a b with h' | h' | h'
    · have := hf a b h'; omega
    · exact h'
    · have := hf b a h'; omega
  · intro h; subst h; rfl

theorem insertUniq_map (f : Int → Int) (hf : ∀ a b, a < b → f a < f b) (y : Int) (l : List Int) :
    insertUniq (f y) (l.map f) = (insertUniq y l).map f := by
  induction l with
  | nil => simp [insertUniq]
  | cons x xs ih =>
    simp only [List.map_cons, insertUniq]
    by_cases h1 : y < x
    · simp [h1, (strictMono_lt_iff f hf y x).2 h1]
    · have h1' : ¬ f y < f x := fun h => h1 ((strictMono_lt_iff f hf y x).1 h)
      by_cases h2 : y = x
      · subst h2; simp
      · have h2' : ¬ f y = f x := fun h => h2 ((strictMono_eq_iff f hf y x).1 h)
        simp [h1, h1', h2, h2', ih]

theorem uniques_map (f : Int → Int) (hf : ∀ a b, a < b → f a < f b) (ys : List Int) :
    uniques (ys.map f) = (uniques ys).map f := by
  induction ys with
  | nil => simp [uniques]
  | cons a t ih =>
    simp only [uniques, List.map_cons, List.foldr_cons] at ih ⊢
    rw [ih, insertUniq_map f hf]

theorem idxOf_map_strictMono (f : Int → Int) (hf : ∀ a b, a < b → f a < f b) (y : Int) (l : List Int) :
    (l.map f).idxOf (f y) = l.idxOf y := by
  induction l with
  | nil => simp
  | cons x xs ih =>
    simp only [List.map_cons, List.idxOf_cons, ih]
    by_cases h : x = y
    · subst h; simp
    · have h' : ¬ f x = f y := fun e => h ((strictMono_eq_iff f hf x y).1 e)
      have b1 : (f x == f y) = false := by simpa using h'
      have b2 : (x == y) = false := by simpa using h
      rw [b1, b2]

/-- **One-hot depends only on the order of the labels**: re-labelling through any strictly increasing map changes no row. -/
theorem oneHot_map_strictMono (f : Int → Int) (hf : ∀ a b, a < b → f a < f b) (ys : List Int) :
    oneHot (ys.map f) = oneHot ys := by
  simp only [oneHot, uniques_map f hf, List.length_map, List.map_map]
  apply List.map_congr_left
  intro y _
  simp only [Function.comp, idxOf_map_strictMono f hf]

/-- distinct labels get distinct columns, however close they are: the column of the smaller label comes first -/
theorem oneHot_distinct_columns (ys : List Int) (a b : Int) (ha : a ∈ ys) (hb : b ∈ ys) (hab : a ≠ b) :
    (uniques ys).idxOf a ≠ (uniques ys).idxOf b := by
  intro h
  have ha' := (mem_uniques ys a).mpr ha
  have hb' := (mem_uniques ys b).mpr hb
  have ia := List.idxOf_lt_length_iff.mpr ha'
  have ib := List.idxOf_lt_length_iff.mpr hb'
  have e1 : (uniques ys)[(uniques ys).idxOf a] = a := List.getElem_idxOf ia
  have e2 : (uniques ys)[(uniques ys).idxOf b] = b := List.getElem_idxOf ib
  apply hab
  rw [← e1, ← e2]
  simp only [h]

example : oneHot ([100001, 100000, 100002].map (fun x => 2 * x + 7)) = oneHot [1, 0, 2] := by decide

/-! ### Non-vacuity -/
example : (splitIndices [3,1,0,2,4] 2 (some (fun m => m / 2))) = ⟨[2,4], [3,1], some [0]⟩ := by decide
example : loaderBatches 7 7 3 = some [([0,1,2],[0,1,2]), ([3,4,5],[3,4,5])] := by decide
example : oneHot [3, -1, 3] = [[0,1],[1,0],[0,1]] := by decide

/-! ### the loader is re-iterable from the start, whatever happened to it before -/

/-- consuming at most `k` items from a cursor at `s ≤ len` yields the batches `s, s+1, …` (at most `k`, at most to the end) -/
theorem consume_spec (k : Nat) (l : Loader) (hb : 0 < l.b) (hs : l.step ≤ l.ny / l.b) :
    ∃ l', l.consume k = some (((List.range (min k (l.ny / l.b - l.step))).map (fun j => loaderItem l.nx l.ny l.b (l.step + j))), l')
      ∧ l'.nx = l.nx ∧ l'.ny = l.ny ∧ l'.b = l.b ∧ l'.step ≤ l'.ny / l'.b := by
  induction k generalizing l with
  | zero => exact ⟨l, by simp [Loader.consume], rfl, rfl, rfl, hs⟩
  | succ k ih =>
    have hb0 : l.b ≠ 0 := by omega
    by_cases hlt : l.step < l.ny / l.b
    · obtain ⟨l', h1, h2, h3, h4, h5⟩ := ih { l with step := l.step + 1 } hb (by show l.step + 1 ≤ l.ny / l.b; omega)
      refine ⟨l', ?_, h2, h3, h4, h5⟩
      simp only [Loader.consume, Loader.next, loaderLen, hb0, if_false, Option.map_some, hlt, if_true]
      simp only at h1
      rw [h1]
      simp only [Option.map_some]
      have : min (k + 1) (l.ny / l.b - l.step) = min k (l.ny / l.b - (l.step + 1)) + 1 := by omega
      rw [this, List.range_succ_eq_map, List.map_cons, List.map_map]
      simp only [Nat.add_zero, Option.some.injEq, Prod.mk.injEq, List.cons.injEq, true_and, and_true]
      apply List.map_congr_left
      intro j _
      simp only [Function.comp, Nat.add_assoc, Nat.add_comm 1 j]
    · refine ⟨l, ?_, rfl, rfl, rfl, hs⟩
      simp only [Loader.consume, Loader.next, loaderLen, hb0, if_false, Option.map_some, hlt]
      have : l.ny / l.b - l.step = 0 := by omega
      simp [this]

/-- **Re-iterable from the start.** Whatever the cursor was left at by earlier (complete or abandoned) loops,
    a new `for` loop sees the batches `0, 1, 2, …` — exactly the first `k` of the full pass when it is
    abandoned after `k` items, the full pass otherwise — and leaves the loader with the same data. -/
theorem loader_reiterable (l : Loader) (k : Nat) (hb : 0 < l.b) :
    ∃ l', l.forLoop k = some (((List.range (l.ny / l.b)).map (loaderItem l.nx l.ny l.b)).take k, l')
      ∧ l'.nx = l.nx ∧ l'.ny = l.ny ∧ l'.b = l.b := by
  obtain ⟨l', h1, h2, h3, h4, _⟩ := consume_spec k l.iter hb (by simp [Loader.iter])
  refine ⟨l', ?_, h2, h3, h4⟩
  simp only [Loader.iter, Nat.sub_zero, Nat.zero_add] at h1
  simp only [Loader.forLoop, Loader.iter, h1]
  rw [← List.map_take, List.take_range]

/-- hence every loop of any program of loops over one loader object starts from batch 0 -/
theorem loops_all_from_start (ks : List Nat) (l : Loader) (hb : 0 < l.b) :
    l.loops ks = some (ks.map (fun k => ((List.range (l.ny / l.b)).map (loaderItem l.nx l.ny l.b)).take k)) := by
  induction ks generalizing l with
  | nil => rfl
  | cons k ks ih =>
    obtain ⟨l', h1, h2, h3, h4⟩ := loader_reiterable l k hb
    simp only [Loader.loops, h1, List.map_cons]
    rw [ih l' (h4 ▸ hb), h2, h3, h4]
    rfl

example : (Loader.loops [1, 5, 0, 2] { nx := 7, ny := 7, b := 3, step := 0 })
    = some [[([0,1,2],[0,1,2])], [([0,1,2],[0,1,2]), ([3,4,5],[3,4,5])], [], [([0,1,2],[0,1,2]), ([3,4,5],[3,4,5])]] := by decide

end Props.C18
