import Proofs.Core
import Proofs.ConvToolsLemmas
import SynapModel.ConvTools
/-!
# C16 — im2col / col2im variants agree and col2im is the exact adjoint of im2col

Statements about `Synap.ConvTools` for every geometry (N, C, H, W, kernel, stride, padding,
dilation per axis) that has at least one window, for any pad value and any data.
-/
namespace Props.C16
open Synap Synap.NDArray Synap.ConvTools Proofs.Core Proofs.ConvTools

variable {R : Type} [CommRing R]

/-- **The three im2col implementations return the same `(N, C·kH·kW, L)` tensor**: the explicit
    index arrays (`repeat`/`tile` + fancy indexing), the double loop with strided slices and `ravel`,
    and the strided window view + `reshape`/`moveaxis` all equal the specification
    `cols[n, (c·kH+a)·kW+b, i·lW+j] = xpad[n, c, i·sH+a·dH, j·sW+b·dW]`. -/
theorem im2col_variants_agree (g : Geom) (x : NDArray R) (pad : R) (hx : x.WF) (hs : x.shape = [g.n, g.c, g.h, g.w])
    (hk : 0 < g.k.1 ∧ 0 < g.k.2) (ho : g.out.isSome) :
    im2colIdx g x pad = im2colSpec g x pad ∧ im2colLoop g x pad = im2colSpec g x pad ∧
    im2colView g x pad = im2colSpec g x pad := by
  exact ⟨im2colIdx_eq_spec g x pad hk, im2colLoop_eq_spec g x pad, im2colView_eq_spec g x pad hk⟩

/-- **The three col2im implementations return the same image** (`np.add.at` over the index arrays,
    the loop of slice-additions, `place_windows` on the reshaped view). -/
theorem col2im_variants_agree (g : Geom) (cols : NDArray R) (hc : cols.WF) (lh lw : Nat) (ho : g.out = some (lh, lw))
    (hs : cols.shape = [g.n, g.rows, lh * lw]) (hk : 0 < g.k.1 ∧ 0 < g.k.2) :
    col2imIdx g cols = col2imSpec g cols ∧ col2imLoop g cols = col2imSpec g cols ∧
    col2imView g cols = col2imSpec g cols := by
  refine ⟨col2imIdx_eq_spec g cols hk, ?_, ?_⟩
  · rw [col2imLoop_eq g cols lh lw ho, col2imSpec_eq g cols lh lw ho]
  · rw [col2imView_eq g cols lh lw ho hs, col2imSpec_eq g cols lh lw ho]

/-- **col2im is the transpose of im2col**: `⟪im2col x, y⟫ = ⟪x, col2im y⟫` for all `x`, `y`
    (zero padding; a non-zero pad value only adds a constant that does not depend on `x`). -/
theorem col2im_adjoint_of_im2col (g : Geom) (x y : NDArray R) (hx : x.WF) (hs : x.shape = [g.n, g.c, g.h, g.w])
    (lh lw : Nat) (ho : g.out = some (lh, lw)) (hy : y.WF) (hys : y.shape = [g.n, g.rows, lh * lw])
    (hk : 0 < g.k.1 ∧ 0 < g.k.2) :
    ∃ u v, im2colSpec g x 0 = some u ∧ col2imSpec g y = some v ∧ dot u y = dot x v := by
  exact col2im_adjoint g x y hs lh lw ho

/-- number of windows covering pixel `(hh, ww)` -/
def coverage (g : Geom) (lh lw hh ww : Nat) : Nat :=
  ((List.range lh).flatMap (fun i => (List.range lw).flatMap (fun j =>
    (List.range g.k.1).flatMap (fun a => (List.range g.k.2).map (fun b =>
      if i * g.s.1 + a * g.d.1 = hh + g.p.1 ∧ j * g.s.2 + b * g.d.2 = ww + g.p.2 then 1 else 0))))).sum

/-- **Folding an unfolded image multiplies each pixel by the number of windows covering it.** -/
theorem fold_unfold_coverage (g : Geom) (x : NDArray R) (hx : x.WF) (hs : x.shape = [g.n, g.c, g.h, g.w])
    (lh lw : Nat) (ho : g.out = some (lh, lw)) (hk : 0 < g.k.1 ∧ 0 < g.k.2) :
    ∃ u v, im2colSpec g x 0 = some u ∧ col2imSpec g u = some v ∧
      ∀ n c hh ww, n < g.n → c < g.c → hh < g.h → ww < g.w →
        v.get [n, c, hh, ww] = (coverage g lh lw hh ww : R) * x.get [n, c, hh, ww] := by
  exact fold_unfold_aux g x lh lw ho

/-- **The sliding-window extractor and its placement routine are adjoint** as well. -/
theorem extract_place_adjoint (g : Geom) (x w : NDArray R) (hx : x.WF) (hs : x.shape = [g.n, g.c, g.h, g.w])
    (lh lw : Nat) (ho : g.out = some (lh, lw)) (hw : w.WF) (hws : w.shape = [lh, lw, g.n, g.c, g.k.1, g.k.2]) :
    ∃ u v, extractWindows g x 0 = some u ∧ placeWindows g w = some v ∧ dot u w = dot x v := by
  exact extract_place_adjoint_aux g x w hs lh lw ho

/-! ### Non-vacuity: a 1×1×3×3 image, 2×2 kernel, stride 1 -/
example : ((im2colSpec (α := Int) ⟨1, 1, 3, 3, (2, 2), (1, 1), (0, 0), (1, 1)⟩ ⟨[1, 1, 3, 3], [1, 2, 3, 4, 5, 6, 7, 8, 9]⟩ 0).map (·.data))
    = some [1, 2, 4, 5, 2, 3, 5, 6, 4, 5, 7, 8, 5, 6, 8, 9] := by decide

end Props.C16
