import SynapModel.ConvTools
namespace Props.C16
theorem placeholder : True := trivial
end Props.C16
