import Proofs.AdjointNN
import Proofs.Subgradient
import Props.C02Formulas
import Proofs.VJPBce
import Proofs.VJPSoftmax
import Proofs.VJPBatchNorm
import Props.C13
import Props.C16
/-!
# C02 — Backward of every nn op / layer / loss yields the exact vector-Jacobian product

Same notions as C01 (`IsAdjoint`, `PointwiseVJP`, subgradient form at kinks and ties).
Linear / bilinear ops over any commutative ring (field for the averaging ops), pointwise
activations over ℝ with `HasDerivAt`.  Nonlinear ops that couple entries use `Proofs.NL.IsVJPAt`
(the derivative of `t ↦ ⟪F(a + t·v), g⟫` at 0 is `⟪v, B g⟫` for every direction `v` and upstream `g`).
Ops whose theorem has not landed yet are listed as `unproved_ops` in the evidence.
-/
namespace Props.C02
open Synap Synap.NDArray Synap.Np Synap.Kernels Proofs.Adjoint Proofs.Core Proofs.Calc Proofs.Subgrad

variable {R : Type} [CommRing R]

/-! ### activations (pointwise, diagonal Jacobian; kink = subgradient) -/
theorem relu_vjp : PointwiseVJP reluForward reluBackward (fun x => max 0 x) (fun x => if 0 < x then 1 else 0) (fun x => x ≠ 0) :=
  Proofs.Calc.relu_vjp

theorem relu_kink_subgradient (y : ℝ) : max 0 y ≥ max 0 (0 : ℝ) + (0 : ℝ) * (y - 0) ∧ (indPos (0 : ℝ) = 0) :=
  relu_subgradient_at_kink y

/-- leaky relu with *any* slope (also > 1 and negative) -/
theorem leaky_relu_vjp (s : ℝ) : PointwiseVJP (fun a => leakyReluForward a s) (fun g a => leakyReluBackward g a s)
    (fun x => if 0 < x then x else s * x) (fun x => if 0 < x then 1 else s) (fun x => x ≠ 0) :=
  Proofs.Calc.leaky_relu_vjp s

theorem selu_vjp : PointwiseVJP (fun a => seluForward a seluAlpha seluScale) (fun g a => seluBackward g a seluAlpha seluScale)
    (fun x => (seluScale : ℝ) * (if 0 < x then x else (seluAlpha : ℝ) * (Real.exp x - 1)))
    (fun x => (seluScale : ℝ) * (if 0 < x then 1 else (seluAlpha : ℝ) * Real.exp x)) (fun x => x ≠ 0) :=
  Proofs.Calc.selu_vjp

theorem tanh_vjp : PointwiseVJP tanhForward (fun g a => tanhBackward g (tanhForward a)) Real.tanh (fun x => 1 - Real.tanh x ^ 2)
    (fun _ => True) := Proofs.Calc.tanh_vjp

theorem sigmoid_vjp : PointwiseVJP sigmoidForward (fun g a => sigmoidBackward g (sigmoidForward a))
    (fun x => 1 / (1 + Real.exp (-x))) (fun x => (1 / (1 + Real.exp (-x))) * (1 - 1 / (1 + Real.exp (-x)))) (fun _ => True) :=
  Proofs.Calc.sigmoid_vjp

/-! ### linear, losses -/
theorem linear_vjp (x w y : NDArray R) (hx : x.WF) (hw : w.WF) (h : linearForward x w none = some y) :
    IsAdjoint (R := R) x.shape y.shape (fun v => linearForward v w none) (fun g => (linearBackward g x w none).map (·.1)) ∧
    IsAdjoint (R := R) w.shape y.shape (fun v => linearForward x v none) (fun g => (linearBackward g x w none).map (·.2.1)) :=
  ⟨linear_adj_x x w y hx hw h, linear_adj_w x w y hx hw h⟩

theorem linear_bias_vjp (x w b y : NDArray R) (hx : x.WF) (hw : w.WF) (hb : b.WF) (h : linearForward x w (some b) = some y)
    (hx2 : x.shape.length = 2) (hw2 : w.shape.length = 2) :
    IsAdjoint (R := R) b.shape y.shape (fun v => linearForward (zeros x.shape) w (some v))
      (fun g => (linearBackward g x w (some b)).bind (·.2.2)) :=
  linear_adj_b x w b y hx hw hb h hx2 hw2

/-- MSE: both arguments receive their gradient (the loss is symmetric up to sign) -/
theorem mse_vjp (p t g : NDArray ℝ) (hp : p.WF) (ht : t.WF) (hg : g.WF) (hs : t.shape = p.shape) (hgs : g.shape = p.shape) :
    (∀ a b : ℝ, HasDerivAt (fun x => (x - b) * (x - b)) (2 * (a - b)) a ∧ HasDerivAt (fun x => (a - x) * (a - x)) (-(2 * (a - b))) b) ∧
    ∃ y, mseForward p t = some y ∧ y.shape = p.shape ∧
      (mseBackward g p t).1.shape = p.shape ∧ (mseBackward g p t).2.shape = p.shape ∧
      ∀ i, validIdx p.shape i →
        y.get i = (p.get i - t.get i) * (p.get i - t.get i) ∧
        (mseBackward g p t).1.get i = g.get i * (2 * (p.get i - t.get i)) ∧
        (mseBackward g p t).2.get i = g.get i * (-(2 * (p.get i - t.get i))) :=
  Proofs.Adjoint.mse_vjp p t g hp ht hg hs hgs

theorem nll_vjp (p y : NDArray R) (labels : List Nat) (hp : p.WF) (h : nllForward p labels = some y) :
    IsAdjoint (R := R) p.shape y.shape (fun v => nllForward v labels) (fun g => some (nllBackward g p labels)) :=
  nll_adj p y labels hp h

/-! ### convolution (input, weight, bias) and average pooling, every geometry with a window -/
theorem conv1d_vjp (x w y : NDArray R) (s p d : Nat) (hx : x.WF) (hw : w.WF) (h : conv1dForward x w none s p d = some y) :
    IsAdjoint (R := R) x.shape y.shape (fun v => conv1dForward v w none s p d) (fun g => (conv1dBackward g x w false s p d).map (·.1)) ∧
    IsAdjoint (R := R) w.shape y.shape (fun v => conv1dForward x v none s p d) (fun g => (conv1dBackward g x w false s p d).map (·.2.1)) :=
  ⟨conv1d_adj_x x w y s p d hx hw h, conv1d_adj_w x w y s p d hx hw h⟩

theorem conv1d_bias_vjp (x w b y : NDArray R) (s p d : Nat) (hx : x.WF) (hw : w.WF) (hb : b.WF) (hb1 : b.shape.length = 1)
    (h : conv1dForward x w (some b) s p d = some y) :
    IsAdjoint (R := R) b.shape y.shape (fun v => conv1dForward (zeros x.shape) w (some v) s p d)
      (fun g => (conv1dBackward g x w true s p d).bind (·.2.2)) :=
  conv1d_adj_b x w b y s p d hx hw hb hb1 h

theorem conv2d_vjp (x w y : NDArray R) (s p d : Nat × Nat) (hx : x.WF) (hw : w.WF) (h : conv2dForward x w none s p d = some y) :
    IsAdjoint (R := R) x.shape y.shape (fun v => conv2dForward v w none s p d) (fun g => (conv2dBackward g x w false s p d).map (·.1)) ∧
    IsAdjoint (R := R) w.shape y.shape (fun v => conv2dForward x v none s p d) (fun g => (conv2dBackward g x w false s p d).map (·.2.1)) :=
  ⟨conv2d_adj_x x w y s p d hx hw h, conv2d_adj_w x w y s p d hx hw h⟩

theorem avgpool_vjp {K : Type} [Field K] (x y : NDArray K) (k s p d : Nat) (hx : x.WF) (h : avgPool1dForward x k s p d = some y) :
    IsAdjoint (R := K) x.shape y.shape (fun v => avgPool1dForward v k s p d) (fun g => avgPool1dBackward g x k s p d) :=
  avgpool1d_adj x y k s p d hx h

theorem avgpool2d_vjp {K : Type} [Field K] (x y : NDArray K) (k s p d : Nat × Nat) (hx : x.WF) (h : avgPool2dForward x k s p d = some y) :
    IsAdjoint (R := K) x.shape y.shape (fun v => avgPool2dForward v k s p d) (fun g => avgPool2dBackward g x k s p d) :=
  avgpool2d_adj x y k s p d hx h

/-! ### max pooling: subgradient at ties -/
theorem maxpool_vjp_subgradient {K : Type} [Field K] [LinearOrder K] [IsStrictOrderedRing K]
    (x g b : NDArray K) (k s p d : Nat) (n c l lo : Nat) (hx : x.shape = [n, c, l])
    (hlo : convOut l k s p d = some lo) (hb : maxPool1dBackward g x k s p d = some b) :
    b.shape = [n, c, l] ∧ ∀ bn cc q, bn < n → cc < c → q < l →
      b.get [bn, cc, q] = ((List.range lo).map (fun t =>
        let pos := (List.range k).map (fun a => winPos l s p d t a)
        match firstMax (pos.map (fun o => o.map (fun q' => x.get [bn, cc, q']))) with
        | some (_, a) => if pos.getD a none = some q then g.get [bn, cc, t] else 0
        | none => 0)).sum :=
  maxpool1d_backward_masked x g b k s p d n c l lo hx hlo hb

/-! ### unfold / fold and dropout: transposes of each other / of the same mask -/
theorem unfold_fold_vjp (g : ConvTools.Geom) (x y : NDArray R) (hx : x.WF) (hs : x.shape = [g.n, g.c, g.h, g.w])
    (lh lw : Nat) (ho : g.out = some (lh, lw)) (hy : y.WF) (hys : y.shape = [g.n, g.rows, lh * lw])
    (hk : 0 < g.k.1 ∧ 0 < g.k.2) :
    ∃ u v, ConvTools.im2colSpec g x 0 = some u ∧ ConvTools.col2imSpec g y = some v ∧ dot u y = dot x v :=
  Props.C16.col2im_adjoint_of_im2col g x y hx hs lh lw ho hy hys hk

theorem dropout_vjp {K : Type} [Field K] [LinearOrder K] [IsStrictOrderedRing K] (p : K) (vs gs us : List K)
    (h1 : vs.length = us.length) (h2 : gs.length = us.length) :
    (List.zipWith (· * ·) (Synap.Layers.dropout p true vs us) gs).sum
      = (List.zipWith (· * ·) vs (Synap.Layers.dropoutBackward p gs us)).sum :=
  Props.C13.dropout_backward_same_mask p vs gs us h1 h2

/-! ### softmax family along any axis, cross-entropy: full (dense-Jacobian) VJP -/
open Proofs.NL in
theorem softmax_vjp (a s : NDArray ℝ) (axis : Int) (ha : a.WF) (h : softmaxForward a axis = some s) :
    IsVJPAt (fun x => softmaxForward x axis) a a.shape (fun g => softmaxBackward g s axis) :=
  Proofs.NL.softmax_vjp a s axis ha h

open Proofs.NL in
theorem log_softmax_vjp (a ls : NDArray ℝ) (axis : Int) (ha : a.WF) (h : logSoftmaxForward a axis = some ls) :
    IsVJPAt (fun x => logSoftmaxForward x axis) a a.shape (fun g => logSoftmaxBackward g ls axis) :=
  Proofs.NL.log_softmax_vjp a ls axis ha h

open Proofs.NL in
theorem cross_entropy_vjp (x y : NDArray ℝ) (labels : List Nat) (hx : x.WF) (h : crossEntropyForward x labels = some y) :
    IsVJPAt (fun z => crossEntropyForward z labels) x y.shape (fun g => crossEntropyBackward g x labels) :=
  Proofs.NL.cross_entropy_vjp x y labels hx h

open Proofs.NL in
/-- **softmax of a 0-d operand along dim 0 / −1** (accepted, as `np.max` / `np.sum` accept these two int axes on a 0-d
    array): the value is `1`, the gradient is `0` for every upstream gradient, and that is the VJP -/
theorem softmax_zero_dim_vjp (a g : NDArray ℝ) (ha : a.WF) (has : a.shape = []) (d : Int) (hd : d = 0 ∨ d = -1) :
    softmaxForward a d = some ⟨[], [1]⟩ ∧ softmaxBackward g ⟨[], [1]⟩ d = some ⟨[], [0]⟩ ∧
    IsVJPAt (fun x => softmaxForward x d) a [] (fun g => softmaxBackward g ⟨[], [1]⟩ d) :=
  ⟨Proofs.NL.softmax_zero_dim a has d hd,
    Proofs.NL.softmax_zero_dim_grad a _ g has d hd (Proofs.NL.softmax_zero_dim a has d hd),
    by have h := Proofs.NL.softmax_vjp a _ d ha (Proofs.NL.softmax_zero_dim a has d hd); rwa [has] at h⟩

open Proofs.NL in
/-- **log_softmax of a 0-d operand along dim 0 / −1**: the value is `0`, the gradient is `0`, and that is the VJP -/
theorem log_softmax_zero_dim_vjp (a g : NDArray ℝ) (ha : a.WF) (has : a.shape = []) (d : Int) (hd : d = 0 ∨ d = -1) :
    logSoftmaxForward a d = some ⟨[], [0]⟩ ∧ logSoftmaxBackward g ⟨[], [0]⟩ d = some ⟨[], [0]⟩ ∧
    IsVJPAt (fun x => logSoftmaxForward x d) a [] (fun g => logSoftmaxBackward g ⟨[], [0]⟩ d) :=
  ⟨Proofs.NL.log_softmax_zero_dim a has d hd,
    Proofs.NL.log_softmax_zero_dim_grad a _ g has d hd (Proofs.NL.log_softmax_zero_dim a has d hd),
    by have h := Proofs.NL.log_softmax_vjp a _ d ha (Proofs.NL.log_softmax_zero_dim a has d hd); rwa [has] at h⟩

/-- non-vacuity: the hypotheses of `softmax_vjp` are met by a concrete 2×2 input -/
example : ∃ s, softmaxForward (⟨[2, 2], [1, 2, 3, 4]⟩ : NDArray ℝ) 1 = some s := by
  simp [softmaxForward, normAxis, zeroDimAxis]

/-- … and by a 0-d input with `dim` 0 / −1 (NumPy's reductions accept these two int axes on a 0-d array): there the
    forward is the constant `1` (`0` for log_softmax) and the backward returns `0` for every upstream gradient -/
example : softmaxForward (⟨[], [3]⟩ : NDArray ℝ) 0 = some ⟨[], [1]⟩ ∧
    softmaxBackward (⟨[], [5]⟩ : NDArray ℝ) ⟨[], [1]⟩ 0 = some ⟨[], [0]⟩ :=
  ⟨Proofs.NL.softmax_zero_dim _ rfl 0 (Or.inl rfl),
    Proofs.NL.softmax_zero_dim_grad ⟨[], [3]⟩ _ _ rfl 0 (Or.inl rfl) (Proofs.NL.softmax_zero_dim _ rfl 0 (Or.inl rfl))⟩
example : logSoftmaxForward (⟨[], [3]⟩ : NDArray ℝ) (-1) = some ⟨[], [0]⟩ ∧
    logSoftmaxBackward (⟨[], [5]⟩ : NDArray ℝ) ⟨[], [0]⟩ (-1) = some ⟨[], [0]⟩ :=
  ⟨Proofs.NL.log_softmax_zero_dim _ rfl (-1) (Or.inr rfl),
    Proofs.NL.log_softmax_zero_dim_grad ⟨[], [3]⟩ _ _ rfl (-1) (Or.inr rfl)
      (Proofs.NL.log_softmax_zero_dim _ rfl (-1) (Or.inr rfl))⟩

/-! ### binary cross-entropies (pointwise in the prediction / logit for a fixed target) -/
open Proofs.NL in
/-- BCE: off the forward clamp level and where both logarithms have non-zero arguments, the factor the backward
    kernel uses is the derivative of the scalar the forward kernel evaluates (ε-guards included, as implemented) -/
theorem bce_scalar_deriv (pv tv : ℝ) (h1 : pv + (epsilon : ℝ) ≠ 0) (h2 : 1 - pv + (epsilon : ℝ) ≠ 0)
    (hc : -(tv * Real.log (pv + (epsilon : ℝ)) + (1 - tv) * Real.log (1 - pv + (epsilon : ℝ))) ≠ -(Real.log (epsilon : ℝ))) :
    HasDerivAt (fun x => bceScalar x tv) (bceFactor pv tv) pv :=
  Proofs.NL.bce_scalar_deriv pv tv h1 h2 hc

open Proofs.NL in
theorem bce_vjp (p t g : NDArray ℝ) (hp : p.WF) (ht : t.WF) (hg : g.WF) (hs : t.shape = p.shape) (hgs : g.shape = p.shape) :
    ∃ y b, bceForward p t = some y ∧ bceBackward g p t = some b ∧ y.shape = p.shape ∧ b.shape = p.shape ∧
      ∀ i, validIdx p.shape i →
        y.get i = bceScalar (p.get i) (t.get i) ∧ b.get i = bceFactor (p.get i) (t.get i) * g.get i :=
  Proofs.NL.bce_vjp p t g hp ht hg hs hgs

open Proofs.NL in
/-- BCE with logits: the stabilised forward is smooth with derivative `(1 − y) − 1/(1 + eˣ)` everywhere … -/
theorem bce_logits_scalar_deriv (xv yv : ℝ) :
    HasDerivAt (fun x => bceLogitsScalar x yv) ((1 - yv) - 1 / (1 + Real.exp xv)) xv :=
  Proofs.NL.bce_logits_scalar_deriv xv yv

open Proofs.NL in
/-- … and the factor of the backward kernel, which keeps an `ε` in one denominator, is within `ε = 1e-12` of it
    (a bounded deviation of the implementation, stated rather than hidden) -/
theorem bce_logits_factor_within_eps (xv yv : ℝ) :
    |bceLogitsFactor xv yv - ((1 - yv) - 1 / (1 + Real.exp xv))| ≤ (epsilon : ℝ) :=
  Proofs.NL.bce_logits_factor_close xv yv

open Proofs.NL in
theorem bce_logits_vjp (x y g : NDArray ℝ) (hx : x.WF) (hy : y.WF) (hg : g.WF) (hs : y.shape = x.shape) (hgs : g.shape = x.shape) :
    ∃ l b, bceLogitsForward x y = some l ∧ bceLogitsBackward g x y = some b ∧ l.shape = x.shape ∧ b.shape = x.shape ∧
      ∀ i, validIdx x.shape i →
        l.get i = bceLogitsScalar (x.get i) (y.get i) ∧ b.get i = g.get i * bceLogitsFactor (x.get i) (y.get i) :=
  Proofs.NL.bce_logits_vjp x y g hx hy hg hs hgs

/-! ### batch normalisation: input gradient in eval mode (constant statistics) and in training mode (statistics are the
    batch mean and biased variance of the input itself: the three-term formula), scale and shift gradients -/
open Proofs.NL in
theorem batch_norm_eval_vjp (x : NDArray ℝ) (gamma beta : Option (NDArray ℝ)) (mean var : Nat → ℝ) (eps : ℝ) (hx : x.WF) :
    IsVJPAt (fun z => some (bnForward z gamma beta mean var eps)) x x.shape
      (fun g => some (bnBackward g x gamma beta.isSome false mean var eps).1) :=
  Proofs.NL.bn_eval_vjp_x x gamma beta mean var eps hx

open Proofs.NL in
theorem batch_norm_train_vjp (x : NDArray ℝ) (gamma beta : Option (NDArray ℝ)) (eps : ℝ) (heps : 0 < eps) (hx : x.WF)
    (hrank : 2 ≤ x.shape.length) :
    IsVJPAt (fun z => some (bnForward z gamma beta (batchMean z) (batchVar z) eps)) x x.shape
      (fun g => some (bnBackward g x gamma beta.isSome true (batchMean x) (batchVar x) eps).1) :=
  Proofs.NL.bn_train_vjp_x x gamma beta eps heps hx hrank

open Proofs.NL in
theorem batch_norm_gamma_vjp (x gm : NDArray ℝ) (beta : Option (NDArray ℝ)) (useBatch : Bool) (mean var : Nat → ℝ) (eps : ℝ) (hx : x.WF)
    (hrank : 2 ≤ x.shape.length) (hgm : gm.WF) (hgs : gm.shape = [x.shape.getD 1 0]) :
    IsVJPAt (fun gm' => some (bnForward x (some gm') beta mean var eps)) gm x.shape
      (fun g => (bnBackward g x (some gm) beta.isSome useBatch mean var eps).2.1) :=
  Proofs.NL.bn_vjp_gamma x gm beta useBatch mean var eps hx hrank hgm hgs

open Proofs.NL in
theorem batch_norm_beta_vjp (x bt : NDArray ℝ) (gamma : Option (NDArray ℝ)) (useBatch : Bool) (mean var : Nat → ℝ) (eps : ℝ) (hx : x.WF)
    (hrank : 2 ≤ x.shape.length) (hbt : bt.WF) (hbs : bt.shape = [x.shape.getD 1 0]) :
    IsVJPAt (fun bt' => some (bnForward x gamma (some bt') mean var eps)) bt x.shape
      (fun g => (bnBackward g x gamma true useBatch mean var eps).2.2) :=
  Proofs.NL.bn_vjp_beta x bt gamma useBatch mean var eps hx hrank hbt hbs

/-! ### max-pool 2d: subgradient selection, as in 1d -/
theorem maxpool2d_vjp_subgradient {K : Type} [Field K] [LinearOrder K] [IsStrictOrderedRing K]
    (x g b : NDArray K) (k s p d : Nat × Nat) (n c h w lh lw : Nat) (hx : x.shape = [n, c, h, w])
    (hlh : convOut h k.1 s.1 p.1 d.1 = some lh) (hlw : convOut w k.2 s.2 p.2 d.2 = some lw)
    (hb : maxPool2dBackward g x k s p d = some b) :
    b.shape = [n, c, h, w] ∧ ∀ bn cc qh qw, bn < n → cc < c → qh < h → qw < w →
      b.get [bn, cc, qh, qw] = ((List.range lh).flatMap (fun th => (List.range lw).map (fun tw =>
        let pos := win2 h w k s p d th tw
        match firstMax (pos.map (fun o => o.map (fun (q : Nat × Nat) => x.get [bn, cc, q.1, q.2]))) with
        | some (_, a) => if pos.getD a none = some (qh, qw) then g.get [bn, cc, th, tw] else 0
        | none => 0))).sum :=
  Proofs.NL.maxpool2d_backward_masked x g b k s p d n c h w lh lw hx hlh hlw hb

/-- the position `firstMax` selects is a real (never a padding) entry that dominates the window -/
theorem maxpool_selection_is_argmax {K : Type} [Field K] [LinearOrder K] [IsStrictOrderedRing K]
    (vals : List (Option K)) (hreal : ∃ (k : Nat) (v : K), vals[k]? = some (some v)) :
    ∃ v k, firstMax vals = some (v, k) ∧ vals[k]? = some (some v) ∧ ∀ (j : Nat) (w : K), vals[j]? = some (some w) → w ≤ v :=
  firstMax_spec vals hreal

end Props.C02
