import SynapModel.Ops
namespace Props.C02
theorem placeholder : True := trivial
end Props.C02
