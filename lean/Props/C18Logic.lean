import Proofs.LoaderLogicTie
/-!
# C18 — the index arithmetic of `DataLoader`, read from `data.py` on this run, is the arithmetic of the model

`Synap.Gen.Loader.*` (file `SynapModel/Generated/LoaderLogic.lean`) is regenerated from `/repo/synapgrad/nn/utils/data.py` by
`harness/data_formulas.py` every time the check runs; statements and proofs are in `Proofs/LoaderLogicTie.lean`.
-/
namespace Props.C18

/-- `__len__` is `len(y) // batch_size` -/
theorem src_loader_len : type_of% @Proofs.LoaderLogicTie.len_is_src := @Proofs.LoaderLogicTie.len_is_src
/-- `__getitem__` slices `X` and `y` by `[idx·b : idx·b + b]` (Python's saturating slices) -/
theorem src_loader_item : type_of% @Proofs.LoaderLogicTie.item_is_src := @Proofs.LoaderLogicTie.item_is_src
/-- `__iter__` rewinds the cursor -/
theorem src_loader_iter : type_of% @Proofs.LoaderLogicTie.iter_is_src := @Proofs.LoaderLogicTie.iter_is_src
/-- `__next__` yields the batch under the cursor and advances while `step < len`, then stops -/
theorem src_loader_next : type_of% @Proofs.LoaderLogicTie.next_is_src := @Proofs.LoaderLogicTie.next_is_src

end Props.C18
