import Proofs.KernelCallsTie
/-!
# C05 — which NumPy calls the array kernels make, read from the source on this run

`Synap.Gen.Calls.*` (file `SynapModel/Generated/KernelCalls.lean`) is regenerated from `/repo/synapgrad/cpu_ops.py` by
`harness/array_formulas.py` every time a check runs; statements and proofs are in `Proofs/KernelCallsTie.lean`: the model kernel
equals the generated composition of `Synap.NpCall.*` for every array and argument over any scalar type.
-/
namespace Props.C05

/-- transpose forward is `np.swapaxes(a, dim0, dim1)` -/
theorem src_calls_transpose : type_of% @Proofs.KernelCallsTie.transpose_is_src := @Proofs.KernelCallsTie.transpose_is_src

/-- movedim forward is `np.moveaxis(a, source, destination)` -/
theorem src_calls_movedim : type_of% @Proofs.KernelCallsTie.movedim_is_src := @Proofs.KernelCallsTie.movedim_is_src

/-- reshape forward is `a.reshape(shape)` -/
theorem src_calls_reshape : type_of% @Proofs.KernelCallsTie.reshape_is_src := @Proofs.KernelCallsTie.reshape_is_src

/-- unsqueeze forward is `np.expand_dims` -/
theorem src_calls_unsqueeze : type_of% @Proofs.KernelCallsTie.unsqueeze_is_src := @Proofs.KernelCallsTie.unsqueeze_is_src

/-- matmul forward is `a @ b` -/
theorem src_calls_matmul : type_of% @Proofs.KernelCallsTie.matmul_is_src := @Proofs.KernelCallsTie.matmul_is_src

/-- addmm forward is `a + (b @ c)` -/
theorem src_calls_addmm_forward : type_of% @Proofs.KernelCallsTie.addmm_forward_is_src := @Proofs.KernelCallsTie.addmm_forward_is_src

/-- sum forward is `np.sum(a, axis, keepdims)` -/
theorem src_calls_sum_forward : type_of% @Proofs.KernelCallsTie.sum_forward_is_src := @Proofs.KernelCallsTie.sum_forward_is_src

/-- concat forward is `np.concatenate(xs, axis)` -/
theorem src_calls_concat_forward : type_of% @Proofs.KernelCallsTie.concat_forward_is_src := @Proofs.KernelCallsTie.concat_forward_is_src

/-- stack forward is `np.stack(xs, axis)` -/
theorem src_calls_stack : type_of% @Proofs.KernelCallsTie.stack_is_src := @Proofs.KernelCallsTie.stack_is_src

/-- unbind forward is the sequence of entries along the axis (`np.rollaxis`) -/
theorem src_calls_unbind_forward : type_of% @Proofs.KernelCallsTie.unbind_forward_is_src := @Proofs.KernelCallsTie.unbind_forward_is_src

/-- indexing forward is `a[s]` -/
theorem src_calls_slice : type_of% @Proofs.KernelCallsTie.slice_is_src := @Proofs.KernelCallsTie.slice_is_src

end Props.C05
