import SynapModel.Ops
import Proofs.EngineStruct
import Proofs.ApiLemmas
/-!
# C10 — Results and gradients keep the operand's floating dtype and exact shape (logical core)

Statements about `Synap.Ops` / `Synap.Api`.  The float32-vs-float64 *value* agreement clause of the
property is a floating-point fact and is observed by the check, not proved.
-/
namespace Props.C10
open Synap Synap.NDArray Synap.Api Synap.Ops Synap.Engine

/-- **float32 operands give float32, float64 operands give float64** — whatever the rank of the
    result (the dtype rule does not look at shapes, so 0-d results are included); integer label
    operands do not change it. -/
theorem result_dtype_preserved (dts : List DType) :
    (dts ≠ [] → (∀ d ∈ dts, d = .f32) → resultDType dts = .f32) ∧
    (dts ≠ [] → (∀ d ∈ dts, d = .f64) → resultDType dts = .f64) ∧
    ((∀ d ∈ dts, d ≠ .f64) → (.f32 ∈ dts) → resultDType dts = .f32) ∧
    ((.f64 ∈ dts) → resultDType dts = .f64) := by
  refine ⟨?_, ?_, ?_, ?_⟩
  · intro hne hall
    cases dts with
    | nil => exact absurd rfl hne
    | cons d ds =>
      have hd : d = .f32 := hall d List.mem_cons_self
      have h64 : ¬ (DType.f64 ∈ d :: ds) := fun hm => by have := hall _ hm; cases this
      have h32 : DType.f32 ∈ d :: ds := hd ▸ List.mem_cons_self
      simp only [resultDType, List.contains_iff_mem, h64, h32, if_true, if_false]
  · intro hne hall
    cases dts with
    | nil => exact absurd rfl hne
    | cons d ds =>
      have hd : d = .f64 := hall d List.mem_cons_self
      have h64 : DType.f64 ∈ d :: ds := hd ▸ List.mem_cons_self
      simp only [resultDType, List.contains_iff_mem, h64, if_true]
  · intro hall h32
    have h64 : ¬ (DType.f64 ∈ dts) := fun hm => hall _ hm rfl
    simp only [resultDType, List.contains_iff_mem, h64, h32, if_true, if_false]
  · intro h64
    simp only [resultDType, List.contains_iff_mem, h64, if_true]

set_option linter.unusedSectionVars false

variable {α : Type} [Zero α] [One α] [Add α] [Sub α] [Mul α] [Div α] [Neg α] [NatCast α]
  [OfScientific α] [LT α] [DecidableLT α] [LE α] [DecidableLE α] [Transc α]

/-
STATEMENT FALSE AS WRITTEN (kept for reference, replaced by `apply_result_dtype'` below).

theorem apply_result_dtype (st st' : TState α) (op : Op α) (inputs ks : List Nat)
    (h : Ops.apply st op inputs = some (st', ks)) :
    ∀ k ∈ ks, st'.dtypes[k]? = some (resultDType (inputs.filterMap (fun i => st.dtypes[i]?))) := (no proof: false, see below)

Reason: `mkTensor` returns the index `st.g.length` but appends to `st.dtypes`; nothing in `TState`
forces the three lists `g`, `vals`, `dtypes` to have the same length.
Counterexample (any `α`): `st.g = [n₀]` (one node, `reqGrad = false`), `st.vals = [⟨[], []⟩]`,
`st.dtypes = [f32, i8]`, `op = .neg`, `inputs = [0]`.  The call succeeds with `ks = [1]`,
`st'.dtypes = [f32, i8, f32]`, so `st'.dtypes[1]? = some i8` whereas
`resultDType [f32] = f32`.  Machine-checked as `apply_result_dtype_counterexample`.
-/

/-- the original `apply_result_dtype` is refuted by a store whose lists are not aligned -/
theorem apply_result_dtype_counterexample :
    ¬ ∀ (st st' : TState α) (op : Op α) (inputs ks : List Nat),
      Ops.apply st op inputs = some (st', ks) →
      ∀ k ∈ ks, st'.dtypes[k]? = some (resultDType (inputs.filterMap (fun i => st.dtypes[i]?))) := by
  intro H
  let n0 : Node (NDArray α) :=
    { children := [], reqGrad := false, back := none, retain := false, grad := none, zero := ⟨[], []⟩ }
  let st0 : TState α := { g := [n0], vals := [⟨[], []⟩], dtypes := [.f32, .i8], modes := {} }
  have h1 : [0].mapM (fun i => st0.vals[i]?) = some [(⟨[], []⟩ : NDArray α)] := rfl
  have h2 : evalOp (Op.neg : Op α) [(⟨[], []⟩ : NDArray α)] =
      some (unary (Kernels.negForward ⟨[], []⟩) (fun g => some (Kernels.negBackward g))) := rfl
  obtain ⟨⟨st', ks⟩, hres⟩ := Proofs.Api.apply_succ (st := st0) (op := Op.neg) (inputs := [0]) h1 h2
    (fun _ => rfl)
  obtain ⟨ins, outs, e1, e2, _, hd, _, _, hks, _⟩ := Proofs.Api.apply_spec hres
  rw [h1] at e1; cases e1
  rw [h2] at e2; cases e2
  have := H st0 st' .neg [0] ks hres 1 (by rw [hks]; simp [unary, st0])
  rw [hd] at this
  simp [unary, st0, resultDType] at this

/-- every tensor an op creates carries the dtype `resultDType` of its operands.
    Added hypothesis w.r.t. the original statement: `hd : st.dtypes.length = st.g.length`
    (the dtype list is aligned with the graph). -/
theorem apply_result_dtype' (st st' : TState α) (op : Op α) (inputs ks : List Nat)
    (hd : st.dtypes.length = st.g.length)
    (h : Ops.apply st op inputs = some (st', ks)) :
    ∀ k ∈ ks, st'.dtypes[k]? = some (resultDType (inputs.filterMap (fun i => st.dtypes[i]?))) := by
  obtain ⟨ins, outs, _, _, _, hdt, _, _, hks, _⟩ := Proofs.Api.apply_spec h
  intro k hk
  rw [hks, List.mem_range'_1] at hk
  rw [hdt, List.getElem?_append_right (by omega), List.getElem?_replicate, if_pos (by omega)]

/-
STATEMENT FALSE AS WRITTEN (kept for reference, replaced by `scalar_operand_dtype'` below).

theorem scalar_operand_dtype (st st' : TState α) (v : α) (like k : Nat) (dt : DType)
    (hl : st.dtypes[like]? = some dt) (h : scalarOperand st v like = some (st', k)) :
    st'.dtypes[k]? = some dt ∧ ∃ n, st'.g[k]? = some n ∧ n.reqGrad = false := (no proof: false, see below)

Reason: as above (`k = st.g.length` indexes `st.dtypes ++ [dt]`).
Counterexample (any `α`, any `v`): `st.g = []`, `st.vals = []`, `st.dtypes = [f32, f64]`,
`like = 1`, `dt = f64`: the call returns `k = 0` and `st'.dtypes = [f32, f64, f64]`, so
`st'.dtypes[0]? = some f32 ≠ some f64`.  Machine-checked as `scalar_operand_dtype_counterexample`.
-/

/-- the original `scalar_operand_dtype` is refuted by a store whose lists are not aligned -/
theorem scalar_operand_dtype_counterexample (v : α) :
    ¬ ∀ (st st' : TState α) (like k : Nat) (dt : DType),
      st.dtypes[like]? = some dt → scalarOperand st v like = some (st', k) →
      st'.dtypes[k]? = some dt ∧ ∃ n, st'.g[k]? = some n ∧ n.reqGrad = false := by
  intro H
  let st0 : TState α := { g := [], vals := [], dtypes := [.f32, .f64], modes := {} }
  have := (H st0 _ 1 0 .f64 rfl rfl).1
  simp [st0] at this

/-- **A Python scalar operand takes the dtype of the tensor it meets.**
    Added hypothesis w.r.t. the original statement: `hd : st.dtypes.length = st.g.length`. -/
theorem scalar_operand_dtype' (st st' : TState α) (v : α) (like k : Nat) (dt : DType)
    (hd : st.dtypes.length = st.g.length)
    (hl : st.dtypes[like]? = some dt) (h : scalarOperand st v like = some (st', k)) :
    st'.dtypes[k]? = some dt ∧ ∃ n, st'.g[k]? = some n ∧ n.reqGrad = false := by
  unfold scalarOperand newLeaf at h
  rw [hl, Option.getD_some, Proofs.Api.mkTensor_eq, if_neg (by simp)] at h
  simp only [Option.some.injEq, Prod.mk.injEq] at h
  obtain ⟨rfl, rfl⟩ := h
  refine ⟨?_, Proofs.Api.mkNode st (scalar v) false [] none, ?_, ?_⟩
  · simp [← hd]
  · simp
  · simp [Proofs.Api.mkNode]

/-- the invariant: every gradient buffer has the shape of its tensor (`zero` is `zeros_like(data)`) -/
def GradShapesOK (ns : Graph (NDArray α)) : Prop :=
  ∀ (i : Nat) (n : Node (NDArray α)) (g : NDArray α), ns[i]? = some n → n.grad = some g → g.shape = n.zero.shape

/-- **After backward the gradient of every tensor has exactly that tensor's shape**, whatever the
    shapes of the other operands and whatever the kernels returned: buffers are created by
    `zeros_like`, the root buffer by the (shape-checked) caller gradient, and afterwards only ever
    updated by in-place addition. -/
theorem grad_buffer_dtype_shape (ns : Graph (NDArray α)) (h0 : GradShapesOK ns) (root : Nat) (g : NDArray α)
    (r : Node (NDArray α)) (hr : ns[root]? = some r) (hg : g.shape = r.zero.shape) (retainAll : Bool)
    (ns' : Graph (NDArray α)) (tr : List TrEv) (h : Engine.backward ns root g retainAll = some (ns', tr)) :
    GradShapesOK ns' := by
  have key := Proofs.Api.bufInv_backward (G := NDArray α)
    (R := fun z x => x.shape = z.shape) (fun _ => rfl)
    (fun z a b (hab : a.shape = z.shape) => (show (a + b).shape = z.shape from hab))
    ns root g retainAll ns' tr h h0
    (fun r' hr' => by rw [hr] at hr'; cases hr'; exact hg)
  exact key

/-- **`backward(grad)` goes ahead only with an upstream gradient of exactly the root's shape** — same rank and
    every extent equal (a `(1,)` gradient for a 0-d root, an `(n, 1)` one for an `(n,)` root, a prefix of the
    shape … are all refused): the hypothesis `hg` of `grad_buffer_dtype_shape` is what the API checks. -/
theorem backward_accepts_only_matching_shape (st st' : TState α) (root : Nat) (g : NDArray α) (tr : List TrEv)
    (h : Api.backward st root g = (st', some tr)) :
    ∃ v, st.vals[root]? = some v ∧ g.shape = v.shape := by
  unfold Api.backward at h
  split at h
  · rename_i r v hr hv
    refine ⟨v, hv, ?_⟩
    by_cases hrg : r.reqGrad = true
    · simp only [hrg, Bool.not_true, Bool.false_eq_true, if_false] at h
      by_cases hs : (v.shape != g.shape) = true
      · simp [hs] at h
      · simp only [bne_iff_ne, ne_eq, Decidable.not_not] at hs
        exact hs.symm
    · simp [hrg] at h
  · simp at h

/-- **The `.grad` setter stores only an array of exactly the tensor's shape**, and leaves the invariant in
    place (`hz`: the node's `zero` field is `zeros_like` of its value — `mkTensor_zero_shape'`). -/
theorem assignGrad_keeps_shapes (st st' : TState α) (i : Nat) (g : NDArray α) (h0 : GradShapesOK st.g)
    (hz : ∀ n v, st.g[i]? = some n → st.vals[i]? = some v → n.zero.shape = v.shape)
    (h : assignGrad st i g = some st') :
    (∃ v, st.vals[i]? = some v ∧ g.shape = v.shape) ∧ GradShapesOK st'.g := by
  unfold assignGrad at h
  split at h
  · rename_i n v hn hv
    by_cases hs : (v.shape != g.shape) = true
    · simp [hs] at h
    · simp only [hs, Bool.false_eq_true, if_false, Option.some.injEq] at h
      simp only [bne_iff_ne, ne_eq, Decidable.not_not] at hs
      subst h
      refine ⟨⟨v, hv, hs.symm⟩, ?_⟩
      have h0' : Proofs.Api.BufInv (G := NDArray α) (fun z x => x.shape = z.shape) st.g := h0
      exact Proofs.Api.bufInv_setGrad (G := NDArray α) (R := fun z x => x.shape = z.shape) h0' i (some g)
        (fun m y hm hy => by
          cases hy
          rw [hn] at hm; cases hm
          rw [hz n v hn hv]; exact hs.symm)
  · simp at h

/-- non-vacuity of the refusal: a `(1,)` gradient for a 0-d root is not accepted (and neither is the setter's) -/
example : (Api.backward (α := Int) ⟨[⟨[], true, none, false, none, ⟨[], [0]⟩⟩], [⟨[], [5]⟩], [.f64], {}⟩ 0 ⟨[1], [1]⟩).2 = none := by decide
example : (assignGrad (α := Int) ⟨[⟨[], true, none, false, none, ⟨[], [0]⟩⟩], [⟨[], [5]⟩], [.f64], {}⟩ 0 ⟨[1], [1]⟩).isNone = true := by decide
example : (assignGrad (α := Int) ⟨[⟨[], true, none, false, none, ⟨[], [0]⟩⟩], [⟨[], [5]⟩], [.f64], {}⟩ 0 ⟨[], [1]⟩).isSome = true := by decide

/-
STATEMENT FALSE AS WRITTEN (kept for reference, replaced by `mkTensor_zero_shape'` below).

theorem mkTensor_zero_shape (st st' : TState α) (v : NDArray α) (dt : DType) (rg : Bool) (ch : List Nat)
    (bk : Option (NDArray α → Option (List (Option (NDArray α))))) (k : Nat)
    (h : mkTensor st v dt rg ch bk = some (st', k)) :
    ∃ n, st'.g[k]? = some n ∧ n.zero.shape = v.shape ∧ st'.vals[k]? = some v ∧ st'.dtypes[k]? = some dt := (no proof: false, see below)

Reason: as above; the `g` clause and the `zero.shape` clause hold unconditionally, the `vals` and
`dtypes` clauses need the lists to be aligned with `g`.
Counterexample (any `α`): `st.g = []`, `st.vals = [⟨[1], []⟩]`, `st.dtypes = []`, `v = ⟨[], []⟩`,
`dt = f32`, `rg = false`, `ch = []`, `bk = none`: the call returns `k = 0`,
`st'.vals = [⟨[1], []⟩, ⟨[], []⟩]`, so `st'.vals[0]? ≠ some v`.
Machine-checked as `mkTensor_zero_shape_counterexample`.
-/

/-- the original `mkTensor_zero_shape` is refuted by a store whose lists are not aligned -/
theorem mkTensor_zero_shape_counterexample :
    ¬ ∀ (st st' : TState α) (v : NDArray α) (dt : DType) (rg : Bool) (ch : List Nat)
      (bk : Option (NDArray α → Option (List (Option (NDArray α))))) (k : Nat),
      mkTensor st v dt rg ch bk = some (st', k) →
      ∃ n, st'.g[k]? = some n ∧ n.zero.shape = v.shape ∧ st'.vals[k]? = some v ∧ st'.dtypes[k]? = some dt := by
  intro H
  let st0 : TState α := { g := [], vals := [⟨[1], []⟩], dtypes := [], modes := {} }
  obtain ⟨n, _, _, hv, _⟩ := H st0 _ ⟨[], []⟩ .f32 false [] none 0 rfl
  simp [st0] at hv

/-- tensors created by `mkTensor` satisfy `zero.shape = value.shape`, which is what `Api.backward`
    checks the caller's gradient against.
    Added hypotheses w.r.t. the original statement: `hv : st.vals.length = st.g.length` and
    `hd : st.dtypes.length = st.g.length` (the three lists of the store are aligned). -/
theorem mkTensor_zero_shape' (st st' : TState α) (v : NDArray α) (dt : DType) (rg : Bool) (ch : List Nat)
    (bk : Option (NDArray α → Option (List (Option (NDArray α))))) (k : Nat)
    (hv : st.vals.length = st.g.length) (hd : st.dtypes.length = st.g.length)
    (h : mkTensor st v dt rg ch bk = some (st', k)) :
    ∃ n, st'.g[k]? = some n ∧ n.zero.shape = v.shape ∧ st'.vals[k]? = some v ∧ st'.dtypes[k]? = some dt := by
  rw [Proofs.Api.mkTensor_eq] at h
  split at h
  · cases h
  · simp only [Option.some.injEq, Prod.mk.injEq] at h
    obtain ⟨rfl, rfl⟩ := h
    refine ⟨Proofs.Api.mkNode st v rg ch bk, by simp, rfl, by simp [← hv], by simp [← hd]⟩

/-- the alignment of the three lists is established by the empty store and kept by `mkTensor`
    (hence by `newLeaf`, `scalarOperand`, `applyOp`, `Ops.apply`), so the added hypotheses of the
    primed theorems hold of every store the API can build -/
theorem mkTensor_aligned (st st' : TState α) (v : NDArray α) (dt : DType) (rg : Bool) (ch : List Nat)
    (bk : Option (NDArray α → Option (List (Option (NDArray α))))) (k : Nat)
    (hv : st.vals.length = st.g.length) (hd : st.dtypes.length = st.g.length)
    (h : mkTensor st v dt rg ch bk = some (st', k)) :
    st'.vals.length = st'.g.length ∧ st'.dtypes.length = st'.g.length := by
  rw [Proofs.Api.mkTensor_eq] at h
  split at h
  · cases h
  · simp only [Option.some.injEq, Prod.mk.injEq] at h
    obtain ⟨rfl, rfl⟩ := h
    simp [hv, hd]

theorem apply_aligned (st st' : TState α) (op : Op α) (inputs ks : List Nat)
    (hv : st.vals.length = st.g.length) (hd : st.dtypes.length = st.g.length)
    (h : Ops.apply st op inputs = some (st', ks)) :
    st'.vals.length = st'.g.length ∧ st'.dtypes.length = st'.g.length := by
  obtain ⟨ins, outs, _, _, a, b, ⟨new, c, hl, _⟩, _, _, _⟩ := Proofs.Api.apply_spec h
  rw [a, b, c]
  simp [hv, hd, hl]

end Props.C10
