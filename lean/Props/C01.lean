import Proofs.AdjointAll
import Proofs.PointwiseCalc
import Proofs.Subgradient
import Props.C01Formulas
import Props.C01Calls
/-!
# C01 — Backward of every tensor op yields the exact vector-Jacobian product

For a linear op `F` (or a bilinear op in one operand, the others fixed) the Jacobian-vector product
in direction `v` is `F v`, and `B` is the vector-Jacobian product exactly when
`⟪F v, g⟫ = ⟪v, B g⟫` for all `v, g`.  `IsAdjoint sa sy F B` bundles this identity with *totality*
(whenever the forward call is accepted, backward returns) and the *shape* claim (the gradient has
exactly the operand's shape).  `vjp_unique` shows the identity pins `B g` down completely, so
"adjoint" is "equal to the VJP, and nothing else may differ".

All statements: every shape of any rank (0-d and size-1 axes included), every argument value the
forward accepts, every operand value, every upstream gradient, over any commutative ring.
The pointwise transcendental ops are in `Proofs/PointwiseCalc.lean` (over ℝ, `HasDerivAt`).
-/
namespace Props.C01
open Synap Synap.NDArray Synap.Np Synap.Kernels Proofs.Adjoint Proofs.Core

variable {R : Type} [CommRing R]

/-- **The adjoint identity determines the backward kernel**: two kernels satisfying it for the same
    linear forward agree on every gradient. -/
theorem vjp_unique (sa sy : Shape) (F B B' : NDArray R → Option (NDArray R))
    (h : IsAdjoint sa sy F B) (h' : IsAdjoint sa sy F B') (g : NDArray R) (hg : g.WF) (hs : g.shape = sy) :
    B g = B' g := by
  obtain ⟨_, b, _, hb, _, _, hbw, hbs, _⟩ := h (zeros sa) g (ofFn_wf _ _) rfl hg hs
  obtain ⟨_, b', _, hb', _, _, hbw', hbs', _⟩ := h' (zeros sa) g (ofFn_wf _ _) rfl hg hs
  rw [hb, hb']
  congr 1
  -- compare `b` and `b'` against every basis array
  have key : ∀ i, validIdx sa i → b.get i = b'.get i := by
    intro i hi
    let e : NDArray R := ofFn sa (fun k => if k = i then 1 else 0)
    obtain ⟨y1, c1, hy1, hc1, _, _, _, _, d1⟩ := h e g (ofFn_wf _ _) rfl hg hs
    obtain ⟨y2, c2, hy2, hc2, _, _, _, _, d2⟩ := h' e g (ofFn_wf _ _) rfl hg hs
    rw [hb] at hc1; rw [hb'] at hc2
    cases hc1; cases hc2
    rw [hy1] at hy2; cases hy2
    have basis : ∀ c : NDArray R, dot e c = c.get i := by
      intro c
      rw [dot_ofFn, Proofs.Core.sum_map_ite_mul (allIdx sa) (allIdx_nodup sa) i c.get]
      simp [(mem_allIdx sa i).mpr hi]
    have e1 := basis b
    have e2 := basis b'
    rw [← e1, ← e2, ← d1, ← d2]
  exact ext_get b b' hbw hbw' (by rw [hbs, hbs']) (by intro i hi; exact key i (by rwa [hbs] at hi))

/-! ### data movement -/
theorem transpose_vjp (a y : NDArray R) (d0 d1 : Int) (ha : a.WF) (h : transposeForward a d0 d1 = some y) :
    IsAdjoint (R := R) a.shape y.shape (fun v => transposeForward v d0 d1) (fun g => transposeBackward g d0 d1) :=
  transpose_adj a y d0 d1 ha h

theorem movedim_vjp (a y : NDArray R) (src dst : Int) (ha : a.WF) (h : movedimForward a src dst = some y) :
    IsAdjoint (R := R) a.shape y.shape (fun v => movedimForward v src dst) (fun g => movedimBackward g src dst) :=
  movedim_adj a y src dst ha h

theorem reshape_vjp (a y : NDArray R) (t : List Int) (ha : a.WF) (h : reshapeForward a t = some y) :
    IsAdjoint (R := R) a.shape y.shape (fun v => reshapeForward v t) (fun g => reshapeBackward g a.shape) :=
  reshape_adj a y t ha h

theorem flatten_vjp (a y : NDArray R) (s e : Int) (ha : a.WF) (h : flattenForward a s e = some y) :
    IsAdjoint (R := R) a.shape y.shape (fun v => flattenForward v s e) (fun g => reshapeBackward g a.shape) :=
  flatten_adj a y s e ha h

theorem squeeze_vjp (a y : NDArray R) (ax : Axes) (ha : a.WF) (h : squeezeForward a ax = some y) :
    IsAdjoint (R := R) a.shape y.shape (fun v => squeezeForward v ax) (fun g => squeezeBackward g a.shape) :=
  squeeze_adj a y ax ha h

theorem unsqueeze_vjp (a y : NDArray R) (axes : List Int) (ha : a.WF) (h : unsqueezeForward a axes = some y) :
    IsAdjoint (R := R) a.shape y.shape (fun v => unsqueezeForward v axes) (fun g => unsqueezeBackward g axes) :=
  unsqueeze_adj a y axes ha h

theorem unfold_dim_vjp (a y : NDArray R) (d sz st : Int) (ha : a.WF) (h : unfoldDimForward a d sz st = some y) :
    IsAdjoint (R := R) a.shape y.shape (fun v => unfoldDimForward v d sz st) (fun g => unfoldDimBackward g a.shape d sz st) :=
  unfoldDim_adj a y d sz st ha h

/-- indexing: ints, slices with any step, ellipsis, newaxis, one integer list *with repeats*
    (where the backward must accumulate) -/
theorem slice_vjp (a y : NDArray R) (sels : List Sel) (ha : a.WF) (h : sliceForward a sels = some y) :
    IsAdjoint (R := R) a.shape y.shape (fun v => sliceForward v sels) (fun g => sliceBackward g a.shape sels) :=
  slice_adj a y sels ha h

theorem neg_vjp (s : Shape) :
    IsAdjoint (R := R) s s (fun v => some (negForward v)) (fun g => some (negBackward g)) := neg_adj s

theorem clone_vjp (s : Shape) :
    IsAdjoint (R := R) s s (fun v => some (cloneForward v)) (fun g => some (cloneBackward g)) := clone_adj s

/-! ### broadcasting arithmetic, reductions, matrix products, join / split -/
theorem add_vjp (a b y : NDArray R) (ha : a.WF) (hb : b.WF) (h : addForward a b = some y) :
    IsAdjoint (R := R) a.shape y.shape (fun v => addForward v (zeros b.shape)) (fun g => some (addBackward g a.shape b.shape).1) ∧
    IsAdjoint (R := R) b.shape y.shape (fun v => addForward (zeros a.shape) v) (fun g => some (addBackward g a.shape b.shape).2) :=
  ⟨add_adj_left a b y ha hb h, add_adj_right a b y ha hb h⟩

theorem mul_vjp (a b y : NDArray R) (ha : a.WF) (hb : b.WF) (h : mulForward a b = some y) :
    IsAdjoint (R := R) a.shape y.shape (fun v => mulForward v b) (fun g => (mulBackward g a b).map (·.1)) ∧
    IsAdjoint (R := R) b.shape y.shape (fun v => mulForward a v) (fun g => (mulBackward g a b).map (·.2)) :=
  ⟨mul_adj_left a b y ha hb h, mul_adj_right a b y ha hb h⟩

theorem sum_vjp (a y : NDArray R) (ax : Axes) (keep : Bool) (ha : a.WF) (h : sumForward a ax keep = some y) :
    IsAdjoint (R := R) a.shape y.shape (fun v => sumForward v ax keep) (fun g => sumBackward g a.shape ax keep) :=
  sum_adj a y ax keep ha h

/-- **sum of a 0-d tensor along dim 0 / −1** (the one input `sum` accepts that names no existing axis;
    covered by `sum_vjp`, spelled out): forward is the identity, backward is the identity — with and
    without `keepdims`, the result and the gradient are 0-d. -/
theorem sum_zero_dim_vjp (a g : NDArray R) (ha : a.WF) (has : a.shape = []) (hg : g.WF) (hgs : g.shape = [])
    (d : Int) (hd : d = 0 ∨ d = -1) (keep : Bool) :
    sumForward a (.one d) keep = some a ∧ sumBackward g a.shape (.one d) keep = some g ∧
    IsAdjoint (R := R) a.shape a.shape (fun v => sumForward v (.one d) keep)
      (fun g => sumBackward g a.shape (.one d) keep) :=
  ⟨sum_zero_dim a ha has d hd keep, has ▸ sum_zero_dim_backward g hg hgs d hd keep,
    sum_adj a a (.one d) keep ha (sum_zero_dim a ha has d hd keep)⟩

theorem matmul_vjp (a b y : NDArray R) (ha : a.WF) (hb : b.WF) (h : matmulForward a b = some y) :
    IsAdjoint (R := R) a.shape y.shape (fun v => matmulForward v b) (fun g => (matmulBackward g a b).map (·.1)) ∧
    IsAdjoint (R := R) b.shape y.shape (fun v => matmulForward a v) (fun g => (matmulBackward g a b).map (·.2)) :=
  ⟨matmul_adj_left a b y ha hb h, matmul_adj_right a b y ha hb h⟩

theorem addmm_vjp (a b c y : NDArray R) (ha : a.WF) (hb : b.WF) (hc : c.WF) (h : addmmForward a b c = some y)
    (hb2 : b.shape.length = 2) (hc2 : c.shape.length = 2) :
    IsAdjoint (R := R) a.shape y.shape (fun v => addmmForward v (zeros b.shape) c) (fun g => (addmmBackward g a b c).map (·.1)) ∧
    IsAdjoint (R := R) b.shape y.shape (fun v => addmmForward (zeros a.shape) v c) (fun g => (addmmBackward g a b c).map (·.2.1)) ∧
    IsAdjoint (R := R) c.shape y.shape (fun v => addmmForward (zeros a.shape) b v) (fun g => (addmmBackward g a b c).map (·.2.2)) :=
  ⟨addmm_adj_a a b c y ha hb hc h hb2 hc2, addmm_adj_b a b c y ha hb hc h hb2 hc2, addmm_adj_c a b c y ha hb hc h hb2 hc2⟩

theorem unbind_vjp (a : NDArray R) (axis : Int) (ys : List (NDArray R)) (ha : a.WF)
    (h : unbindForward a axis = some ys) (k : Nat) (yk : NDArray R) (hk : ys[k]? = some yk) :
    IsAdjoint (R := R) a.shape yk.shape (fun v => (unbindForward v axis).bind (·[k]?))
      (fun g => unbindBackward g a.shape axis k) :=
  unbind_adj a axis ys ha h k yk hk

theorem stack_vjp (xs : List (NDArray R)) (axis : Int) (y : NDArray R) (hxs : ∀ x ∈ xs, x.WF)
    (h : stackForward xs axis = some y) (k : Nat) (xk : NDArray R) (hk : xs[k]? = some xk) :
    IsAdjoint (R := R) xk.shape y.shape
      (fun v => stackForward ((xs.map (fun x => zeros x.shape)).set k v) axis)
      (fun g => (stackBackward g axis).bind (·[k]?)) :=
  stack_adj xs axis y hxs h k xk hk

theorem concat_vjp (xs : List (NDArray R)) (axis : Int) (y : NDArray R) (hxs : ∀ x ∈ xs, x.WF)
    (h : concatForward xs axis = some y) (k : Nat) (xk : NDArray R) (hk : xs[k]? = some xk) :
    IsAdjoint (R := R) xk.shape y.shape
      (fun v => concatForward ((xs.map (fun x => zeros x.shape)).set k v) axis)
      (fun g => (concatBackward g (xs.map (·.shape)) axis).bind (·[k]?)) :=
  concat_adj xs axis y hxs h k xk hk

/-- mean over None / int / tuple dims (negative entries inside tuples included), over any field -/
theorem mean_vjp {K : Type} [Field K] (a y : NDArray K) (ax : Axes) (keep : Bool) (ha : a.WF)
    (h : meanForward a ax keep = some y) :
    IsAdjoint (R := K) a.shape y.shape (fun v => meanForward v ax keep) (fun g => meanBackward g a.shape ax keep) :=
  mean_adj a y ax keep ha h

/-! ### pointwise transcendental ops, over ℝ

`PointwiseVJP fwd bwd φ φ' dom`: `fwd` applies `φ` element-wise, `HasDerivAt φ (φ' x) x` on `dom`, and
`bwd g a` returns (an array of the operand's shape holding) `g[i] · φ'(a[i])` — the product of the
upstream gradient with the diagonal Jacobian. -/
section Calc
open Proofs.Calc

theorem exp_vjp : PointwiseVJP expForward (fun g a => expBackward g (expForward a)) Real.exp Real.exp (fun _ => True) :=
  Proofs.Calc.exp_vjp

/-- `log` as the code computes it: `log(x + 1e-12)` with derivative `1/(x + 1e-12)` -/
theorem log_vjp : PointwiseVJP logForward logBackward (fun x => Real.log (x + (epsilon : ℝ))) (fun x => 1 / (x + (epsilon : ℝ)))
    (fun x => x + (epsilon : ℝ) ≠ 0) := Proofs.Calc.log_vjp

theorem sqrt_vjp : PointwiseVJP sqrtForward (fun g a => sqrtBackward g (sqrtForward a)) Real.sqrt (fun x => 1 / (2 * Real.sqrt x))
    (fun x => 0 < x) := Proofs.Calc.sqrt_vjp

/-- `x ** n`, integer and fractional exponents, on `x ≠ 0 ∨ 1 ≤ n` -/
theorem pow_vjp (n : ℝ) : PointwiseVJP (fun a => powForward a n) (fun g a => powBackward g a n) (fun x => x ^ n)
    (fun x => n * x ^ (n - 1)) (fun x => x ≠ 0 ∨ 1 ≤ n) := Proofs.Calc.pow_vjp n

/-- `n ** x` for a base `n > 0` -/
theorem rpow_vjp (n : ℝ) (hn : 0 < n) : PointwiseVJP (fun a => rpowForward a n) (fun g a => rpowBackward g (rpowForward a n) n)
    (fun x => n ^ x) (fun x => n ^ x * Real.log n) (fun _ => True) := Proofs.Calc.rpow_vjp n hn

end Calc

/-! ### max / min : where the function is not differentiable (ties) any valid subgradient is acceptable

The kernel sends the upstream gradient of every output element to exactly one element of its fibre,
that element attains the extremum (`argmax_spec`), nothing else receives anything
(`max_backward_masked`), backward is total (`max_backward_total`), and "one-hot at an arg-max" is a
subgradient of `max` at *any* arg-max (`max_subgradient_inequality`), so every choice among ties is valid. -/
section MaxMin
open Proofs.Subgrad
variable {K : Type} [Field K] [LinearOrder K] [IsStrictOrderedRing K]

theorem max_selects_argmax (a y : NDArray K) (ha : a.WF) (dim : Option Int) (keep : Bool) (h : maxForward a dim keep = some y)
    (axes : List Nat) (hax : (match dim with | none => Axes.all | some d => Axes.one d).normRed a.shape.length = some axes)
    (o : Idx) (ho : validIdx y.shape o) :
    let j := argExt (fun x y => decide (y < x)) a axes keep o
    validIdx a.shape j ∧ reduceIdx axes keep j = o ∧ y.get o = a.get j ∧
    ∀ i, validIdx a.shape i → reduceIdx axes keep i = o → a.get i ≤ a.get j :=
  argmax_spec a y ha dim keep h axes hax o ho

theorem max_vjp_subgradient (a y g b : NDArray K) (ha : a.WF) (dim : Option Int) (keep : Bool)
    (h : maxForward a dim keep = some y) (hg : g.WF) (hgs : g.shape = y.shape)
    (hb : maxBackward g a dim keep = some b)
    (axes : List Nat) (hax : (match dim with | none => Axes.all | some d => Axes.one d).normRed a.shape.length = some axes) :
    b.shape = a.shape ∧ ∀ i, validIdx a.shape i →
      b.get i = if argExt (fun x y => decide (y < x)) a axes keep (reduceIdx axes keep i) = i
                then g.get (reduceIdx axes keep i) else 0 :=
  max_backward_masked a y g b ha dim keep h hg hgs hb axes hax

theorem max_backward_completes (a y g : NDArray K) (ha : a.WF) (dim : Option Int) (keep : Bool)
    (h : maxForward a dim keep = some y) (hg : g.WF) (hgs : g.shape = y.shape) :
    ∃ b, maxBackward g a dim keep = some b ∧ b.shape = a.shape :=
  max_backward_total a y g ha dim keep h hg hgs

/-- **max / min of a 0-d tensor along dim 0 / −1**: the forward value is the operand, the selected
    arg-extremum is the only index `[]`, and backward returns the upstream gradient unchanged (mask 1) -/
theorem max_zero_dim_vjp (a g : NDArray K) (ha : a.WF) (has : a.shape = []) (hg : g.WF) (hgs : g.shape = [])
    (d : Int) (hd : d = 0 ∨ d = -1) (keep : Bool) :
    maxForward a (some d) keep = some a ∧ maxBackward g a (some d) keep = some g :=
  ⟨Proofs.Adjoint.ext_zero_dim _ a ha has d hd keep, Proofs.Adjoint.ext_zero_dim_backward _ g a hg hgs has d hd keep⟩

theorem min_zero_dim_vjp (a g : NDArray K) (ha : a.WF) (has : a.shape = []) (hg : g.WF) (hgs : g.shape = [])
    (d : Int) (hd : d = 0 ∨ d = -1) (keep : Bool) :
    minForward a (some d) keep = some a ∧ minBackward g a (some d) keep = some g :=
  ⟨Proofs.Adjoint.ext_zero_dim _ a ha has d hd keep, Proofs.Adjoint.ext_zero_dim_backward _ g a hg hgs has d hd keep⟩

theorem one_hot_at_argmax_is_subgradient (ι : Type) (s : List ι) (x x' : ι → K) (j : ι) (hj : j ∈ s)
    (hmax : ∀ i ∈ s, x i ≤ x j) (m' : K) (hm' : ∀ i ∈ s, x' i ≤ m') : x j + (x' j - x j) ≤ m' :=
  max_subgradient_inequality ι s x x' j hj hmax m' hm'

theorem min_vjp_subgradient (a y g b : NDArray K) (ha : a.WF) (dim : Option Int) (keep : Bool)
    (h : minForward a dim keep = some y) (hg : g.WF) (hgs : g.shape = y.shape)
    (hb : minBackward g a dim keep = some b)
    (axes : List Nat) (hax : (match dim with | none => Axes.all | some d => Axes.one d).normRed a.shape.length = some axes) :
    b.shape = a.shape ∧ ∀ i, validIdx a.shape i →
      b.get i = if argExt (fun x y => decide (x < y)) a axes keep (reduceIdx axes keep i) = i
                then g.get (reduceIdx axes keep i) else 0 :=
  min_backward_masked a y g b ha dim keep h hg hgs hb axes hax

end MaxMin

/-! ### Non-vacuity of the 0-d branch of sum / max / min (dim 0 / −1 accepted, gradient returned unchanged) -/
example : sumForward (⟨[], [3]⟩ : NDArray Int) (.one 0) false = some ⟨[], [3]⟩ := rfl
example : sumBackward (⟨[], [5]⟩ : NDArray Int) [] (.one (-1)) true = some ⟨[], [5]⟩ := rfl
example : maxBackward (⟨[], [5]⟩ : NDArray Int) ⟨[], [3]⟩ (some 0) false = some ⟨[], [5]⟩ := rfl
example : minBackward (⟨[], [5]⟩ : NDArray Int) ⟨[], [3]⟩ (some (-1)) true = some ⟨[], [5]⟩ := rfl
/-- the hypotheses of `max_vjp_subgradient` are satisfiable on the 0-d branch: `axes = []` -/
example : (match (some (-1) : Option Int) with | none => Axes.all | some d => Axes.one d).normRed
    (⟨[], [3]⟩ : NDArray Int).shape.length = some [] := rfl

/-! ### Non-vacuity: a concrete broadcast (2×1×3 ⊕ 3), a movedim 0→2 on 2×3×4, a slice `[::-2, …, None, [0,0,1]]` are accepted -/
example : (addForward (α := Int) (ofFn [2, 1, 3] (fun i => (i.getD 0 0 : Int) + i.getD 2 0)) (ofFn [3] (fun i => (i.getD 0 0 : Int)))).map (·.shape)
    = some [2, 1, 3] := by decide
example : (movedimForward (α := Int) (zeros [2, 3, 4]) 0 2).map (·.shape) = some [3, 4, 2] := by decide
example : (sliceForward (α := Int) (zeros [3, 2, 2]) [.slice none none (-2), .ellipsis, .newaxis, .list [0, 0, 1]]).map (·.shape)
    = some [2, 2, 1, 3] := by decide

end Props.C01
