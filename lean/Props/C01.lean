import SynapModel.Ops
namespace Props.C01
theorem placeholder : True := trivial
end Props.C01
