import Proofs.EngineLogicFlags
/-!
# C07 — the decision logic of `tensor.py`, read from the source on this run, is the logic of the engine model

`Synap.Gen.Engine.*` (file `SynapModel/Generated/EngineLogic.lean`) is regenerated from `/repo/synapgrad/tensor.py` by
`harness/engine_logic.py` every time a check runs.  The statements (with their proofs) are in `Proofs/EngineLogicTie.lean`;
they are re-exported here because they belong to this property: the creation rule, the flag setters and the grad-mode contexts.
-/
namespace Props.C07
open Proofs.EngineLogicTie

/-- `Tensor.__init__`: flag = requires_grad and gradient mode; float guard; children kept only with the flag -/
theorem src_creation_rule_is_model : type_of% @Proofs.EngineLogicTie.mkTensor_uses_src := @Proofs.EngineLogicTie.mkTensor_uses_src

/-- property `is_leaf` -/
theorem src_is_leaf_is_model : type_of% @Proofs.EngineLogicTie.is_leaf_is_model := @Proofs.EngineLogicTie.is_leaf_is_model

/-- the `requires_grad` setter: only on leaves, only floats may be switched on -/
theorem src_requires_grad_setter_is_model : type_of% @Proofs.EngineLogicTie.setRequiresGrad_uses_src := @Proofs.EngineLogicTie.setRequiresGrad_uses_src

/-- `retain_grad()` guard -/
theorem src_retain_grad_is_model : type_of% @Proofs.EngineLogicTie.retainGrad_uses_src := @Proofs.EngineLogicTie.retainGrad_uses_src

/-- `no_grad()` / `retain_grads()` constructors record the mode -/
theorem src_ctx_new_is_model : type_of% @Proofs.EngineLogicTie.ctxNew_uses_src := @Proofs.EngineLogicTie.ctxNew_uses_src

/-- `__enter__` of both contexts -/
theorem src_ctx_enter_is_model : type_of% @Proofs.EngineLogicTie.ctxEnter_uses_src := @Proofs.EngineLogicTie.ctxEnter_uses_src

/-- `__exit__` of both contexts restores `prev` (also when leaving by exception: same method) -/
theorem src_ctx_exit_is_model : type_of% @Proofs.EngineLogicTie.ctxExit_uses_src := @Proofs.EngineLogicTie.ctxExit_uses_src

/-- `a += b` dispatches to the binary operator (Tensor defines no in-place operator method): the flag rule covers augmented statements -/
theorem src_no_inplace_operator : type_of% @Proofs.EngineLogicTie.tensor_defines_no_inplace_operator := @Proofs.EngineLogicTie.tensor_defines_no_inplace_operator

/-- no attribute hook or `__new__` bypasses the flag setters -/
theorem src_no_attribute_hook : type_of% @Proofs.EngineLogicTie.tensor_defines_no_attribute_hook := @Proofs.EngineLogicTie.tensor_defines_no_attribute_hook

/-- `nn.Parameter` is created by `Tensor.__init__`: the creation rule applies to parameters -/
theorem src_parameter_created_by_tensor_init : type_of% @Proofs.EngineLogicTie.parameter_is_created_by_tensor_init := @Proofs.EngineLogicTie.parameter_is_created_by_tensor_init

end Props.C07
