import Proofs.FormulaTie
/-!
# C09 — the stability-critical formulas of the source, read on this run, are the formulas the stability theorems are about

`Synap.Gen.*` is regenerated from `cpu_ops.py` by `harness/formulas.py` on every run.  The range / exactness theorems of C09 are
about the model's formulas (`1/(1+e^{-x})`, `tanh`, the clamped selu, the log-sum-exp form of BCE-with-logits); these statements
say those are the formulas the source contains, so a "simplification" of one of them (an unclamped exponential, a rational form of
tanh, a dropped shift) breaks the build of this property.
-/
namespace Props.C09
open Synap Synap.Kernels Proofs.FormulaTie Proofs.NL

theorem src_sigmoid_formula (x : ℝ) : Gen.sigmoid_forward x = 1 / (1 + Real.exp (-x)) := by formula_eq
theorem src_sigmoid_backward_formula (g s : ℝ) : Gen.sigmoid_backward g s = g * s * (1 - s) := by formula_eq
theorem src_tanh_formula (x : ℝ) : Gen.tanh_forward x = Real.tanh x := by formula_eq
theorem src_tanh_backward_formula (g t : ℝ) : Gen.tanh_backward g t = g * (1 - t * t) := by formula_eq
/-- the exponential of the selu gradient is taken of `min(x, 0)`: it cannot overflow -/
theorem src_selu_backward_clamped (g x α s : ℝ) :
    Gen.selu_backward g x α s = s * g * ((if 0 < x then 1 else 0) + α * Real.exp (minS x 0) * (if x ≤ 0 then 1 else 0)) := by
  formula_eq
theorem src_bce_logits_formula (x y : ℝ) : Gen.bce_with_logits_loss_forward x y = bceLogitsScalar x y := gen_bce_logits_forward x y
theorem src_bce_logits_backward_formula (g x y : ℝ) : Gen.bce_with_logits_loss_backward g x y = g * bceLogitsFactor x y :=
  gen_bce_logits_backward g x y

end Props.C09
