import Props.C07Logic
import Proofs.EngineStruct
import SynapModel.Api
/-!
# C07 — requires_grad propagation and grad-mode contexts behave like a stack

Statements about `Synap.Engine` (contexts, release rule) and `Synap.Api` (tensor creation rules).
-/
namespace Props.C07
open Synap Synap.Engine Synap.Api Proofs.Engine

/-- **A context restores the mode in force when it was entered** — on normal exit and on exit by
    exception (both run `ctxExit`), whatever the object's `prev` field held before (constructed
    earlier, re-used) and whatever happened to the other flag meanwhile. -/
theorem ctx_restores (m : Modes) (c : Ctx) (m' : Modes) :
    let (m1, c1) := ctxEnter m c
    (c.kind = .noGrad → (ctxExit m' c1).grad = m.grad ∧ (ctxExit m' c1).retain = m'.retain ∧ m1.grad = false ∧ m1.retain = m.retain) ∧
    (c.kind = .retainGrads → (ctxExit m' c1).retain = m.retain ∧ (ctxExit m' c1).grad = m'.grad ∧ m1.retain = true ∧ m1.grad = m.grad) :=
  Proofs.Engine.ctx_restores m c m'

/-- **Stack discipline at any nesting depth**: every well-nested arrangement of `no_grad` /
    `retain_grads` blocks leaves both global modes exactly as it found them. -/
theorem modes_stack (stale : Bool) (b : Block) (m : Modes) : runBlock stale b m = m :=
  Proofs.Engine.modes_stack stale b m

/-- **Result flag rule**: a result requires grad exactly when gradient mode is enabled and at
    least one operand requires grad. -/
theorem result_requires_grad_rule (m : Modes) (ops : List Bool) :
    resultReqGrad m ops = true ↔ (m.grad = true ∧ ∃ b ∈ ops, b = true) :=
  resultReqGrad_spec m ops

set_option linter.unusedSectionVars false
variable {α : Type} [Zero α]

/-- the flag `applyOp` gives every output is `resultReqGrad` of the operand flags (the model of the
    common wrapper body computes `any(operands)` and `Tensor.__init__` ands it with the mode) -/
theorem mkTensor_flag (st st' : TState α) (v : NDArray α) (dt : DType) (rg : Bool)
    (children : List Nat) (back : Option (NDArray α → Option (List (Option (NDArray α))))) (k : Nat)
    (h : mkTensor st v dt rg children back = some (st', k)) :
    ∃ n, st'.g[k]? = some n ∧ n.reqGrad = (rg && st.modes.grad) ∧
      n.children = (if rg && st.modes.grad then children else []) ∧
      n.back = (if rg && st.modes.grad then back else none) ∧ n.grad = none := by
  simp only [mkTensor] at h
  by_cases hc : ((rg && st.modes.grad) && !dt.isFloat) = true
  · simp [hc] at h
  · simp only [hc, if_false, Option.some.injEq, Prod.mk.injEq, Bool.false_eq_true] at h
    obtain ⟨h1, h2⟩ := h
    subst h1; subst h2
    refine ⟨{ children := if (rg && st.modes.grad) = true then children else [], reqGrad := rg && st.modes.grad,
              back := if (rg && st.modes.grad) = true then back else none, retain := false, grad := none,
              zero := NDArray.zeros v.shape }, ?_, rfl, rfl, rfl, rfl⟩
    simp

/-- **A result that does not require grad carries no backward function, no operands and no
    gradient.** -/
theorem no_grad_result_has_no_history (st st' : TState α) (v : NDArray α) (dt : DType) (rg : Bool)
    (children : List Nat) (back : Option (NDArray α → Option (List (Option (NDArray α))))) (k : Nat)
    (h : mkTensor st v dt rg children back = some (st', k)) (hno : (rg && st.modes.grad) = false) :
    ∃ n, st'.g[k]? = some n ∧ n.reqGrad = false ∧ n.back = none ∧ n.children = [] ∧ n.grad = none := by
  obtain ⟨n, a, b, c, d, e⟩ := mkTensor_flag st st' v dt rg children back k h
  exact ⟨n, a, by rw [b, hno], by rw [d, hno]; rfl, by rw [c, hno]; rfl, e⟩

/-- **Only floating-point tensors can be made to require grad**, at creation ... -/
theorem float_only (st : TState α) (v : NDArray α) (dt : DType)
    (children : List Nat) (back : Option (NDArray α → Option (List (Option (NDArray α)))))
    (hmode : st.modes.grad = true) (hdt : dt.isFloat = false) :
    mkTensor st v dt true children back = none := by
  simp [mkTensor, hmode, hdt]

/-- ... and through the setter, which moreover only works on leaves. -/
theorem setter_rules (st st' : TState α) (i : Nat) (b : Bool) (h : setRequiresGrad st i b = some st') :
    ∃ n dt, st.g[i]? = some n ∧ st.dtypes[i]? = some dt ∧ n.isLeaf = true ∧ (b = true → dt.isFloat = true) := by
  unfold setRequiresGrad at h
  split at h
  · rename_i n dt hn hd
    refine ⟨n, dt, hn, hd, ?_, ?_⟩
    · cases hl : n.isLeaf
      · simp [hl] at h
      · rfl
    · intro hb
      subst hb
      cases hf : dt.isFloat
      · cases hl : n.isLeaf <;> simp [hl, hf] at h
      · rfl
  · simp at h

/-- **Every route that switches flags obeys the setter's rules**: a call over a list of tensors (`Module.unfreeze()` on any ancestor)
    that is accepted has found its first tensor a floating-point leaf ... -/
theorem route_first_is_setter (st : TState α) (i : Nat) (is : List Nat) (b : Bool)
    (h : (setRequiresGradAll st (i :: is) b).2 = true) :
    ∃ n dt, st.g[i]? = some n ∧ st.dtypes[i]? = some dt ∧ n.isLeaf = true ∧ (b = true → dt.isFloat = true) := by
  cases hs : setRequiresGrad st i b with
  | none => simp [setRequiresGradAll, hs] at h
  | some st' => exact setter_rules st st' i b hs

/-- ... and a tensor the setter refuses ends the call: it is refused as a whole, the state is the one reached before that tensor. -/
theorem route_refused (st : TState α) (i : Nat) (is : List Nat) (b : Bool) (h : setRequiresGrad st i b = none) :
    setRequiresGradAll st (i :: is) b = (st, false) := by
  simp [setRequiresGradAll, h]

/-- an accepted tensor hands the rest of the list to the same rule -/
theorem route_step (st st' : TState α) (i : Nat) (is : List Nat) (b : Bool) (h : setRequiresGrad st i b = some st') :
    setRequiresGradAll st (i :: is) b = setRequiresGradAll st' is b := by
  simp [setRequiresGradAll, h]

/-! ### tensors made from tensors without an op -/

/-- **A detached tensor is a plain tensor whatever its source holds**: it does not require grad, has no
    backward function, no operands and NO gradient — also when the source is a leaf after backward, a retained
    intermediate or the root of a call (all of which hold a buffer), and in either grad mode. -/
theorem detach_is_plain (st st' : TState α) (i k : Nat) (h : detach st i = some (st', k)) :
    ∃ n, st'.g[k]? = some n ∧ n.reqGrad = false ∧ n.back = none ∧ n.children = [] ∧ n.grad = none ∧ n.retain = false := by
  unfold detach at h
  split at h
  · rename_i v dt _ _
    simp only [mkTensor, Bool.false_and, Bool.false_eq_true, if_false, Option.some.injEq, Prod.mk.injEq] at h
    obtain ⟨h1, h2⟩ := h
    subst h1; subst h2
    exact ⟨{ children := [], reqGrad := false, back := none, retain := false, grad := none, zero := NDArray.zeros v.shape },
      by simp, rfl, rfl, rfl, rfl, rfl⟩
  · simp at h

/-- **The tensor handed out by the `.grad` getter is plain** (when there is a buffer at all). -/
theorem gradTensor_is_plain (st st' : TState α) (i k : Nat) (h : gradTensor st i = some (some (st', k))) :
    ∃ n, st'.g[k]? = some n ∧ n.reqGrad = false ∧ n.back = none ∧ n.children = [] ∧ n.grad = none := by
  unfold gradTensor at h
  split at h
  · rename_i n dt _ _
    split at h
    · rename_i g _
      simp only [mkTensor, Bool.false_and, Bool.false_eq_true, if_false, Option.map_some, Option.some.injEq, Prod.mk.injEq] at h
      obtain ⟨h1, h2⟩ := h
      subst h1; subst h2
      exact ⟨{ children := [], reqGrad := false, back := none, retain := false, grad := none, zero := NDArray.zeros g.shape },
        by simp, rfl, rfl, rfl, rfl⟩
    · simp at h
  · simp at h

/-- **The `.data` round trip follows the leaf-creation rule**: `Tensor(t.data, requires_grad=b)` requires grad iff
    `b` and the grad mode — nothing of the source's flags, history or buffer comes along. -/
theorem fromData_is_leaf (st st' : TState α) (i k : Nat) (b : Bool) (h : fromData st i b = some (st', k)) :
    ∃ n, st'.g[k]? = some n ∧ n.reqGrad = (b && st.modes.grad) ∧ n.back = none ∧ n.children = [] ∧ n.grad = none := by
  unfold fromData newLeaf at h
  split at h
  · rename_i v dt _ _
    obtain ⟨n, a, b', c, d, e⟩ := mkTensor_flag st st' v dt b [] none k h
    refine ⟨n, a, b', ?_, ?_, e⟩
    · rw [d]; split <;> rfl
    · rw [c]; split <;> rfl
  · simp at h

/-- **The copy constructor `Tensor(t)` yields the source's attributes, all of them** (`copy_from`). -/
theorem copyTensor_same (st st' : TState α) (i k : Nat) (h : copyTensor st i = some (st', k)) :
    k = st.g.length ∧ st'.g[k]? = st.g[i]? ∧ st'.vals[st.vals.length]? = st.vals[i]? := by
  unfold copyTensor at h
  split at h
  · rename_i n v dt hn hv _
    simp only [Option.some.injEq, Prod.mk.injEq] at h
    obtain ⟨h1, h2⟩ := h
    subst h1; subst h2
    exact ⟨rfl, by simp [hn], by simp [hv]⟩
  · simp at h

variable [Add α]

/-- **backward() is refused on a tensor that does not require grad.** -/
theorem backward_refused (ns : Graph (NDArray α)) (root : Nat) (r : Node (NDArray α)) (g : NDArray α) (ra : Bool)
    (hr : ns[root]? = some r) (hrg : r.reqGrad = false) : Engine.backward ns root g ra = none := by
  simp [Engine.backward, hr, hrg]

/-- **Release rule**: after backward the root holds a gradient; a reachable non-leaf other than the
    root keeps its buffer iff marked with `retain_grad` or computed under `retain_grads`; reachable
    leaves that require grad hold a gradient. -/
theorem release_rule {G : Type} [Add G] (ns : Graph G) (hw : WFG ns) (hb : BacksTotal ns) (hq : BackImpliesReq ns)
    (root : Nat) (g : G) (retainAll : Bool)
    (ns' : Graph G) (tr : List TrEv) (h : Engine.backward ns root g retainAll = some (ns', tr))
    (v : Nat) (n n' : Node G) (hv : Reach ns root v) (hn : ns[v]? = some n) (hn' : ns'[v]? = some n') :
    (v = root → n'.grad.isSome = true) ∧
    (v ≠ root → n.isLeaf = false → (n'.grad.isSome = (n.retain || retainAll))) ∧
    (v ≠ root → n.isLeaf = true → n.reqGrad = true → n'.grad.isSome = true) :=
  Proofs.Engine.release_rule ns hw hb hq root g retainAll ns' tr h v n n' hv hn hn'

/-- **A tensor that does not require grad never acquires a gradient** through backward. -/
theorem never_acquires_grad {G : Type} [Add G] (ns : Graph G) (hw : WFG ns) (root : Nat) (g : G) (retainAll : Bool)
    (ns' : Graph G) (tr : List TrEv) (h : Engine.backward ns root g retainAll = some (ns', tr))
    (v : Nat) (n n' : Node G) (hv : v ≠ root) (hn : ns[v]? = some n) (hn' : ns'[v]? = some n')
    (hrg : n.reqGrad = false) : n'.grad = n.grad :=
  (backward_frame ns hw root g retainAll ns' tr h).2.2 v n n' hv hn hn' hrg

/-! ### Non-vacuity: nested blocks, a stale pre-constructed context -/
example : ∃ b : Block, b = .ctx .noGrad (.seq [.ctx .retainGrads (.seq []), .ctx .noGrad (.seq [])]) ∧
    runBlock true b ⟨true, false⟩ = ⟨true, false⟩ := ⟨_, rfl, modes_stack _ _ _⟩

end Props.C07
