import SynapModel.Init
import Mathlib.Algebra.Field.Basic
import Mathlib.Tactic.Ring
import Mathlib.Tactic.FieldSimp
/-!
# C15 — Weight initialisers request the documented distribution

Statements about `Synap.Init` (the model of synapgrad/nn/init.py): for every shape, gain, mode,
nonlinearity and slope the parameters handed to the generator are the documented ones.  The
square root is an arbitrary function `HasSqrt.sqrt` (the theorems do not depend on its properties).
-/
namespace Props.C15
open Synap.Init Synap.Optim

variable {α : Type} [Field α] [HasSqrt α]

/-- **fan_in / fan_out as in PyTorch**: `fan_in = shape[1]·∏shape[2:]`, `fan_out = shape[0]·∏shape[2:]`;
    tensors of rank < 2 are rejected. -/
theorem fans_spec (shape : List Nat) :
    (∀ o i rest, shape = o :: i :: rest → fans shape = some (i * rest.foldr (· * ·) 1, o * rest.foldr (· * ·) 1)) ∧
    (shape.length < 2 → fans shape = none) := by
  constructor
  · intro o i rest h; subst h; rfl
  · intro h
    match shape, h with
    | [], _ => rfl
    | [_], _ => rfl

/-- **Xavier uniform**: `U(−a, a)` with `a = gain·√(6/(fan_in+fan_out))`. -/
theorem xavier_uniform_bound (shape : List Nat) (g : α) (fi fo : Nat) (h : fans shape = some (fi, fo)) :
    xavierUniform shape g = some (.uniform (-(g * HasSqrt.sqrt (6 / ((fi + fo : Nat) : α)))) (g * HasSqrt.sqrt (6 / ((fi + fo : Nat) : α)))) := by
  simp [xavierUniform, h, uniform_]

/-- **Xavier normal**: `N(0, std²)` with `std = gain·√(2/(fan_in+fan_out))` — the standard
    deviation itself is handed to the generator, not its square. -/
theorem xavier_normal_std (shape : List Nat) (g : α) (fi fo : Nat) (h : fans shape = some (fi, fo)) :
    xavierNormal shape g = some (.normal 0 (g * HasSqrt.sqrt (2 / ((fi + fo : Nat) : α)))) := by
  simp [xavierNormal, h, normal_]

/-- **Kaiming uniform**: `U(−b, b)` with `b = gain·√(3/fan_mode)`. -/
theorem kaiming_uniform_bound (shape : List Nat) (a : α) (fanOut : Bool) (nl : Nonlin) (fi fo : Nat)
    (h : fans shape = some (fi, fo)) :
    let fan := if fanOut then fo else fi
    kaimingUniform shape a fanOut nl
      = some (.uniform (-(gain nl (some a) * HasSqrt.sqrt (3 / (fan : α)))) (gain nl (some a) * HasSqrt.sqrt (3 / (fan : α)))) := by
  cases fanOut <;> simp [kaimingUniform, h, uniform_]

/-- **Kaiming normal**: `N(0, std²)` with `std = gain/√fan_mode`. -/
theorem kaiming_normal_std (shape : List Nat) (a : α) (fanOut : Bool) (nl : Nonlin) (fi fo : Nat)
    (h : fans shape = some (fi, fo)) :
    let fan := if fanOut then fo else fi
    kaimingNormal shape a fanOut nl = some (.normal 0 (gain nl (some a) / HasSqrt.sqrt (fan : α))) := by
  cases fanOut <;> simp [kaimingNormal, h, normal_, div_eq_mul_inv]

/-- **Linear and Conv layers start from `U(−1/√fan_in, 1/√fan_in)`.** -/
theorem layer_default_bound (shape : List Nat) (fi fo : Nat) (h : fans shape = some (fi, fo)) (hpos : 0 < fi) :
    layerDefault (α := α) shape = some (.uniform (-(1 / HasSqrt.sqrt (fi : α))) (1 / HasSqrt.sqrt (fi : α))) := by
  simp [layerDefault, h, uniform_, hpos]

/-- **Gain table** of `calculate_gain`. -/
theorem gain_table (p : Option α) :
    gain (α := α) .linear p = 1 ∧ gain (α := α) .conv1d p = 1 ∧ gain (α := α) .conv2d p = 1 ∧ gain (α := α) .sigmoid p = 1 ∧
    gain (α := α) .tanh p = 5 / 3 ∧ gain (α := α) .relu p = HasSqrt.sqrt 2 ∧ gain (α := α) .selu p = 3 / 4 ∧
    (∀ s : α, gain (α := α) .leakyRelu (some s) = HasSqrt.sqrt (2 / (1 + s ^ 2))) := by
  refine ⟨rfl, rfl, rfl, rfl, ?_, ?_, ?_, ?_⟩
  · simp [gain]
  · simp [gain]
  · simp [gain]
  · intro s; simp [gain, sq]

/-- the variance Xavier-uniform asks for agrees with the documented std of Xavier-normal whenever
    `sqrt` really is a square root (`s6² = 6x`, `s2² = 2x`): `a²/3 = std²` -/
theorem xavier_uniform_variance (g s6 s2 x : α) (h3 : (3 : α) ≠ 0) (h6 : s6 * s6 = 6 * x) (h2 : s2 * s2 = 2 * x) :
    (g * s6) ^ 2 / 3 = (g * s2) ^ 2 := by
  have e1 : (g * s6) ^ 2 = g ^ 2 * (s6 * s6) := by ring
  have e2 : (g * s2) ^ 2 = g ^ 2 * (s2 * s2) := by ring
  rw [e1, e2, h6, h2, div_eq_iff h3]; ring

/-! ### Non-vacuity -/
example : fans [4, 3, 2, 2] = some (12, 16) := by decide

end Props.C15
