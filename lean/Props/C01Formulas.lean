import Proofs.FormulaTie
/-!
# C01 — the formulas of the source, read on this run, are derivatives of each other and are what the model applies

`Synap.Gen.*` (file `SynapModel/Generated/KernelFormulas.lean`) is regenerated from `/repo/synapgrad/cpu_ops.py` by
`harness/formulas.py` every time a check runs.  `SrcVJP fwd bwd dom` says: at every point of `dom`, `fwd` has a derivative `d`
and `bwd g x = g * d` — the scalar form of "backward is the vector-Jacobian product" for an elementwise op.  The `lift_*`
theorems say the model kernels (which the adjoint / engine theorems and the correspondence run are about) apply exactly these
formulas element by element.  Over ℝ; rounding is outside (see `ASSUMPTIONS` in the evidence).
-/
namespace Props.C01
open Synap Synap.NDArray Synap.Np Synap.Kernels Proofs.FormulaTie

theorem src_add_left_vjp (b : ℝ) : SrcVJP (fun a => Gen.add_forward a b) (fun g _ => (Gen.add_backward g).1) (fun _ => True) := src_add_left b
theorem src_add_right_vjp (a : ℝ) : SrcVJP (fun b => Gen.add_forward a b) (fun g _ => (Gen.add_backward g).2) (fun _ => True) := src_add_right a
theorem src_mul_left_vjp (b : ℝ) : SrcVJP (fun a => Gen.mul_forward a b) (fun g a => (Gen.mul_backward g a b).1) (fun _ => True) := src_mul_left b
theorem src_mul_right_vjp (a : ℝ) : SrcVJP (fun b => Gen.mul_forward a b) (fun g b => (Gen.mul_backward g a b).2) (fun _ => True) := src_mul_right a
theorem src_neg_vjp : SrcVJP Gen.neg_forward (fun g _ => Gen.neg_backward g) (fun _ => True) := src_neg
theorem src_clone_vjp : SrcVJP Gen.clone_forward (fun g _ => Gen.clone_backward g) (fun _ => True) := src_clone
/-- `x ** n` for any real exponent, on `x ≠ 0 ∨ 1 ≤ n` -/
theorem src_pow_vjp (n : ℝ) : SrcVJP (fun x => Gen.pow_forward x n) (fun g x => Gen.pow_backward g x n) (fun x => x ≠ 0 ∨ 1 ≤ n) := src_pow n
/-- `n ** x` for a base `n > 0`; the source's backward reads the forward result -/
theorem src_rpow_vjp (n : ℝ) (hn : 0 < n) :
    SrcVJP (fun x => Gen.rpow_forward x n) (fun g x => Gen.rpow_backward g (Gen.rpow_forward x n) n) (fun _ => True) := src_rpow n hn
theorem src_exp_vjp : SrcVJP Gen.exp_forward (fun g x => Gen.exp_backward g (Gen.exp_forward x)) (fun _ => True) := src_exp
/-- `log(x + ε)` as the source computes it, wherever `x + ε ≠ 0` (ε is the source's module constant, read on this run) -/
theorem src_log_vjp : SrcVJP Gen.log_forward Gen.log_backward (fun x => x + (Gen.epsilon_c : ℝ) ≠ 0) := src_log
theorem src_sqrt_vjp : SrcVJP Gen.sqrt_forward (fun g x => Gen.sqrt_backward g (Gen.sqrt_forward x)) (fun x => 0 < x) := src_sqrt

/-- the hypotheses are met: `log` at 1, `sqrt` at 4, `pow` at a negative base with an integer exponent -/
example : (1 : ℝ) + (Gen.epsilon_c : ℝ) ≠ 0 := by
  have : (0 : ℝ) < (Gen.epsilon_c : ℝ) := by unfold Gen.epsilon_c; norm_num
  linarith
example : ((-2 : ℝ) ≠ 0 ∨ (1 : ℝ) ≤ 3) := Or.inl (by norm_num)

/-! ### the model kernels apply the source's formulas element by element -/
theorem model_applies_src_neg (a g : NDArray ℝ) : negForward a = a.map Gen.neg_forward ∧ negBackward g = g.map Gen.neg_backward := lift_neg a g
theorem model_applies_src_exp (a g o : NDArray ℝ) : expForward a = a.map Gen.exp_forward ∧ expBackward g o = zipSame Gen.exp_backward g o := lift_exp a g o
theorem model_applies_src_log (a g : NDArray ℝ) : logForward a = a.map Gen.log_forward ∧ logBackward g a = zipSame Gen.log_backward g a := lift_log a g
theorem model_applies_src_sqrt (a g o : NDArray ℝ) : sqrtForward a = a.map Gen.sqrt_forward ∧ sqrtBackward g o = zipSame Gen.sqrt_backward g o := lift_sqrt a g o
theorem model_applies_src_pow (a g : NDArray ℝ) (n : ℝ) :
    powForward a n = a.map (fun x => Gen.pow_forward x n) ∧ powBackward g a n = zipSame (fun gv x => Gen.pow_backward gv x n) g a := lift_pow a g n
theorem model_applies_src_rpow (a g o : NDArray ℝ) (n : ℝ) :
    rpowForward a n = a.map (fun x => Gen.rpow_forward x n) ∧ rpowBackward g o n = zipSame (fun gv ov => Gen.rpow_backward gv ov n) g o := lift_rpow a g o n
theorem model_applies_src_add (a b : NDArray ℝ) (g : ℝ) : addForward a b = bcast2 Gen.add_forward a b ∧ Gen.add_backward g = (g, g) :=
  ⟨lift_add a b, lift_add_backward g⟩
theorem model_applies_src_mul (a b g : NDArray ℝ) : mulForward a b = bcast2 Gen.mul_forward a b ∧
    mulBackward g a b = (do
      let ga ← bcast2 (fun gv bv => (Gen.mul_backward gv 0 bv).1) g b
      let gb ← bcast2 (fun gv av => (Gen.mul_backward gv av 0).2) g a
      pure (unbroadcast ga a.shape, unbroadcast gb b.shape)) := lift_mul a b g

end Props.C01
