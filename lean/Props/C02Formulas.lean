import Proofs.FormulaTie
/-!
# C02 — the activation / loss formulas of the source, read on this run, are derivatives of each other and are what the model applies

See `Props/C01Formulas.lean` for `SrcVJP` and the role of `Synap.Gen.*` (regenerated from `cpu_ops.py` on every run).
-/
namespace Props.C02
open Synap Synap.NDArray Synap.Np Synap.Kernels Proofs.FormulaTie Proofs.NL

/-- relu away from the kink -/
theorem src_relu_vjp : SrcVJP Gen.relu_forward Gen.relu_backward (fun x => x ≠ 0) := src_relu
/-- at the kink the source's choice (factor 0) is a subgradient of the convex forward function -/
theorem src_relu_subgradient_at_kink (g y : ℝ) :
    Gen.relu_backward g 0 = g * 0 ∧ Gen.relu_forward y ≥ Gen.relu_forward 0 + 0 * (y - 0) := src_relu_kink g y
/-- leaky relu with any slope, away from the kink -/
theorem src_leaky_relu_vjp (s : ℝ) :
    SrcVJP (fun x => Gen.leaky_relu_forward x s) (fun g x => Gen.leaky_relu_backward g x s) (fun x => x ≠ 0) := src_leaky_relu s
/-- selu with any `alpha > 0` and any `scale`, away from the kink -/
theorem src_selu_vjp (α s : ℝ) (hα : 0 < α) :
    SrcVJP (fun x => Gen.selu_forward x α s) (fun g x => Gen.selu_backward g x α s) (fun x => x ≠ 0) := src_selu α s hα
theorem src_tanh_vjp : SrcVJP Gen.tanh_forward (fun g x => Gen.tanh_backward g (Gen.tanh_forward x)) (fun _ => True) := src_tanh
theorem src_sigmoid_vjp : SrcVJP Gen.sigmoid_forward (fun g x => Gen.sigmoid_backward g (Gen.sigmoid_forward x)) (fun _ => True) := src_sigmoid
/-- squared error in the prediction (the wrapper hands the negated array to the target) -/
theorem src_mse_vjp (t : ℝ) : SrcVJP (fun p => Gen.mse_loss_forward p t) (fun g p => Gen.mse_loss_backward g p t) (fun _ => True) := src_mse t
/-- binary cross-entropy off its clamp level and where both logarithms are taken of non-zero numbers -/
theorem src_bce_vjp (t : ℝ) : SrcVJP (fun p => Gen.bce_loss_forward p t) (fun g p => Gen.bce_loss_backward g p t)
    (fun p => p + (epsilon : ℝ) ≠ 0 ∧ 1 - p + (epsilon : ℝ) ≠ 0 ∧
      -(t * Real.log (p + (epsilon : ℝ)) + (1 - t) * Real.log (1 - p + (epsilon : ℝ))) ≠ -(Real.log (epsilon : ℝ))) := src_bce t
/-- binary cross-entropy with logits: forward has the stated derivative everywhere; the source keeps an `ε` in one denominator
    of backward, so its result is within `|g|·ε` of `g ·` that derivative (a bounded deviation, stated, not hidden) -/
theorem src_bce_logits_vjp_within_eps (x y : ℝ) :
    HasDerivAt (fun v => Gen.bce_with_logits_loss_forward v y) ((1 - y) - 1 / (1 + Real.exp x)) x ∧
    ∀ g, |Gen.bce_with_logits_loss_backward g x y - g * ((1 - y) - 1 / (1 + Real.exp x))| ≤ |g| * (epsilon : ℝ) := src_bce_logits x y

/-- the constants `nn.functional.selu` passes meet the hypothesis of `src_selu_vjp` -/
example : 0 < (seluAlpha : ℝ) := Proofs.Calc.seluAlpha_pos

/-! ### the model kernels apply the source's formulas element by element -/
theorem model_applies_src_relu (a g : NDArray ℝ) : reluForward a = a.map Gen.relu_forward ∧ reluBackward g a = zipSame Gen.relu_backward g a := lift_relu a g
theorem model_applies_src_leaky_relu (a g : NDArray ℝ) (s : ℝ) : leakyReluForward a s = a.map (fun x => Gen.leaky_relu_forward x s) ∧
    leakyReluBackward g a s = zipSame (fun gv x => Gen.leaky_relu_backward gv x s) g a := lift_leaky_relu a g s
theorem model_applies_src_selu (a g : NDArray ℝ) (α s : ℝ) : seluForward a α s = a.map (fun x => Gen.selu_forward x α s) ∧
    seluBackward g a α s = zipSame (fun gv x => Gen.selu_backward gv x α s) g a := lift_selu a g α s
theorem model_applies_src_tanh (a g o : NDArray ℝ) : tanhForward a = a.map Gen.tanh_forward ∧ tanhBackward g o = zipSame Gen.tanh_backward g o := lift_tanh a g o
theorem model_applies_src_sigmoid (a g o : NDArray ℝ) : sigmoidForward a = a.map Gen.sigmoid_forward ∧
    sigmoidBackward g o = zipSame Gen.sigmoid_backward g o := lift_sigmoid a g o
theorem model_applies_src_mse (p t : NDArray ℝ) :
    mseForward p t = if p.shape = t.shape then some (zipSame Gen.mse_loss_forward p t) else none := lift_mse p t
/-- the scalars `bce_vjp` / `bce_logits_vjp` (above, about the model arrays) are stated with are the source's formulas -/
theorem model_scalars_are_src_bce (g p t : ℝ) :
    Gen.bce_loss_forward p t = bceScalar p t ∧ Gen.bce_loss_backward g p t = bceFactor p t * g ∧
    Gen.bce_with_logits_loss_forward p t = bceLogitsScalar p t ∧ Gen.bce_with_logits_loss_backward g p t = g * bceLogitsFactor p t :=
  ⟨gen_bce_forward p t, gen_bce_backward g p t, gen_bce_logits_forward p t, gen_bce_logits_backward g p t⟩

end Props.C02
