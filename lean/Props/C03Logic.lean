import Proofs.EngineLogicTraversal
import Proofs.EngineLogicBuffers
/-!
# C03 — the decision logic of `tensor.py`, read from the source on this run, is the logic of the engine model

`Synap.Gen.Engine.*` (file `SynapModel/Generated/EngineLogic.lean`) is regenerated from `/repo/synapgrad/tensor.py` by
`harness/engine_logic.py` every time a check runs.  The statements (with their proofs) are in `Proofs/EngineLogicTie.lean`;
they are re-exported here because they belong to this property: the traversal visits and pushes, the sweep calls and releases, exactly under the conditions the source contains.
-/
namespace Props.C03
open Proofs.EngineLogicTie

/-- the statements of the explicit-stack loop (conditions abstracted) are the ones `stackStep` was written from -/
theorem src_traversal_skeleton_is_modelled : type_of% @Proofs.EngineLogicTie.traversal_skeleton_is_modelled := @Proofs.EngineLogicTie.traversal_skeleton_is_modelled

/-- the statements of the sweep loop: reversed post-order, `grad_fn` call before the release -/
theorem src_sweep_skeleton_is_modelled : type_of% @Proofs.EngineLogicTie.sweep_skeleton_is_modelled := @Proofs.EngineLogicTie.sweep_skeleton_is_modelled

/-- one turn of the explicit-stack machine pushes the child exactly when the source condition holds -/
theorem src_stack_step_is_model : type_of% @Proofs.EngineLogicTie.stackStep_uses_src := @Proofs.EngineLogicTie.stackStep_uses_src

/-- the recursive traversal of the engine theorems performs the same zero-check per child -/
theorem src_visit_is_model : type_of% @Proofs.EngineLogicTie.visit_uses_src := @Proofs.EngineLogicTie.visit_uses_src

/-- one step of the sweep with the source release condition in place -/
theorem src_sweep_step_is_model : type_of% @Proofs.EngineLogicTie.sweep_uses_src := @Proofs.EngineLogicTie.sweep_uses_src

/-- `grad_fn` is called exactly when it is not None -/
theorem src_calls_grad_fn_is_model : type_of% @Proofs.EngineLogicTie.calls_grad_fn_is_model := @Proofs.EngineLogicTie.calls_grad_fn_is_model

/-- backward raises on a tensor that does not require grad, by the source condition -/
theorem src_backward_guard_is_model : type_of% @Proofs.EngineLogicTie.backward_guard_is_model := @Proofs.EngineLogicTie.backward_guard_is_model

end Props.C03
