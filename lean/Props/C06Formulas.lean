import Proofs.FormulaTie
/-!
# C06 — the forward formulas of the activations and elementwise losses, read from the source on this run, are what the model applies

See `Props/C01Formulas.lean` for the role of `Synap.Gen.*` (regenerated from `cpu_ops.py` by `harness/formulas.py` on every run).
The forward theorems of C06 are about the model kernels; these statements say the model kernels compute exactly the source's formulas.
-/
namespace Props.C06
open Synap Synap.NDArray Synap.Np Synap.Kernels Proofs.FormulaTie Proofs.NL

theorem src_forward_relu (a : NDArray ℝ) : reluForward a = a.map Gen.relu_forward := (lift_relu a a).1
theorem src_forward_relu_is_max (x : ℝ) : Gen.relu_forward x = max 0 x := gen_relu_forward x
theorem src_forward_leaky_relu (a : NDArray ℝ) (s : ℝ) : leakyReluForward a s = a.map (fun x => Gen.leaky_relu_forward x s) := (lift_leaky_relu a a s).1
theorem src_forward_selu (a : NDArray ℝ) (α s : ℝ) : seluForward a α s = a.map (fun x => Gen.selu_forward x α s) := (lift_selu a a α s).1
/-- for `alpha > 0` the source's selu is `scale · (x if x > 0 else alpha (eˣ − 1))` -/
theorem src_forward_selu_closed (x α s : ℝ) (hα : 0 < α) :
    Gen.selu_forward x α s = s * (if 0 < x then x else α * (Real.exp x - 1)) := gen_selu_forward x α s hα
theorem src_forward_tanh (a : NDArray ℝ) : tanhForward a = a.map Gen.tanh_forward := (lift_tanh a a a).1
theorem src_forward_sigmoid (a : NDArray ℝ) : sigmoidForward a = a.map Gen.sigmoid_forward := (lift_sigmoid a a a).1
theorem src_forward_mse (p t : NDArray ℝ) :
    mseForward p t = if p.shape = t.shape then some (zipSame Gen.mse_loss_forward p t) else none := lift_mse p t
theorem src_forward_bce (p t : ℝ) : Gen.bce_loss_forward p t = bceScalar p t ∧ Gen.bce_with_logits_loss_forward p t = bceLogitsScalar p t :=
  ⟨gen_bce_forward p t, gen_bce_logits_forward p t⟩

end Props.C06
