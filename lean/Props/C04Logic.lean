import Proofs.EngineLogicBuffers
/-!
# C04 — the decision logic of `tensor.py`, read from the source on this run, is the logic of the engine model

`Synap.Gen.Engine.*` (file `SynapModel/Generated/EngineLogic.lean`) is regenerated from `/repo/synapgrad/tensor.py` by
`harness/engine_logic.py` every time a check runs.  The statements (with their proofs) are in `Proofs/EngineLogicTie.lean`;
they are re-exported here because they belong to this property: which buffers are freshly zeroed, when the root accumulates, which buffers are released.
-/
namespace Props.C04
open Proofs.EngineLogicTie

/-- `child.zero_()` happens exactly under the source condition (requires grad and (no buffer or non-leaf met for the first time)) -/
theorem src_zero_check_is_model : type_of% @Proofs.EngineLogicTie.zeroCheck_uses_src := @Proofs.EngineLogicTie.zeroCheck_uses_src

/-- the condition itself, atom by atom -/
theorem src_zero_cond_is_model : type_of% @Proofs.EngineLogicTie.zero_cond_is_model := @Proofs.EngineLogicTie.zero_cond_is_model

/-- a leaf root with a buffer accumulates, every other root is assigned -/
theorem src_root_accumulates_is_model : type_of% @Proofs.EngineLogicTie.root_accumulates_is_model := @Proofs.EngineLogicTie.root_accumulates_is_model

/-- non-root, non-leaf, non-retained buffers are released unless retain_grads is on -/
theorem src_release_cond_is_model : type_of% @Proofs.EngineLogicTie.release_cond_is_model := @Proofs.EngineLogicTie.release_cond_is_model

end Props.C04
