import SynapModel.Rng
import SynapModel.Generated.RandomSites
import SynapModel.Generated.PersistentSites
/-!
# C19 — Results are reproducible under manual_seed and independent of hash order (logical core)

What a theorem can carry: (1) every call site in the package that can draw randomness or read
process-dependent state draws from the generators `manual_seed` seeds (re-checked against the
source on every run); (2) a run whose steps ignore the environment is a function of the seed
alone; (3) every modelled API draws only through seeded generator functions.  Bit-reproducibility
of NumPy/BLAS itself and allocation layout are runtime behaviour, observed by the double-run check.
-/
namespace Props.C19
open Synap.Rng Synap.OpTable Synap.Generated

/-- **Every random / process-dependent call site in synapgrad is a seeded global generator** (or an
    `id()` used only for set membership).  Regenerated from the source on every run. -/
theorem randomsites_seeded : randomSites.all siteOk = true := by decide +kernel

/-- the table is not empty (the extractor did find the known sites) -/
theorem randomsites_nonempty : 5 ≤ randomSites.length := by decide +kernel

/-- **The only state that outlives a call is the documented one.**  "Results do not depend on how often the computation has
    been repeated" fails exactly when some call leaves state behind for the next one.  Every place in the package where that
    is possible at all — a module-level or class-level mutable object, a mutable default argument, a memoising decorator, a
    `global` statement — is listed by the extractor on every run; the theorem says the list holds nothing but the two engine
    flags, the lazily resolved imports and one read-only default.  A cache, a pooled buffer or a shared default list added
    to the source breaks this obligation before any input exhibits it. -/
theorem persistent_state_is_the_documented_one : persistentSites.all persistentOk = true := by decide +kernel

/-- the extractor did find the known sites (both engine flags) -/
theorem persistentsites_nonempty :
    (persistentSites.filter (fun s => s.name == "gradient__")).length ≥ 1 ∧
    (persistentSites.filter (fun s => s.name == "retain_grads__")).length ≥ 1 := by decide +kernel

/-- **Every modelled API call draws only through generator functions that `manual_seed` seeds.** -/
theorem draws_seeded (a : Api) : ∀ d ∈ draws a, d.1 ∈ seededFns := by
  cases a <;> simp [draws, seededFns] <;> (try split) <;> simp_all

variable {σ ε ω : Type}

/-- **Seeded non-interference.**  If no step looks at the environment (hash seed, addresses, time,
    how often the computation ran before) then two runs from the same generator state produce the
    same outputs and leave the same state, in any two environments. -/
theorem seeded_noninterference (steps : List (Step σ ε ω)) (h : ∀ st ∈ steps, EnvFree st)
    (s : σ) (e e' : ε) : run steps s e = run steps s e' := by
  unfold run
  suffices H : ∀ (acc : List ω × σ),
      steps.foldl (fun (acc : List ω × σ) st => let (o, s') := st acc.2 e; (acc.1 ++ [o], s')) acc
      = steps.foldl (fun (acc : List ω × σ) st => let (o, s') := st acc.2 e'; (acc.1 ++ [o], s')) acc from H _
  induction steps with
  | nil => intro acc; rfl
  | cons st rest ih =>
    intro acc
    simp only [List.foldl_cons]
    rw [h st (by simp) acc.2 e e']
    exact ih (fun t ht => h t (by simp [ht])) _

/-- two runs started from the same seed agree on every prefix: repetition does not matter -/
theorem run_deterministic (steps : List (Step σ ε ω)) (s : σ) (e : ε) : run steps s e = run steps s e := rfl

/-! ### Non-vacuity -/
example : draws (.linear 3 4 true) = [("uniform", 12), ("uniform", 4)] := by decide

end Props.C19
