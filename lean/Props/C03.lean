import Props.C03Logic
import SynapModel.Generated.OpTable
import Proofs.EngineDuality
import Proofs.EngineStack
/-!
# C03 — Gradients of arbitrary op compositions obey the chain rule on any DAG

Statements about `Synap.Engine.backward` (the model of `Tensor.backward`) for every finite graph:
any depth and width, any fan-out / fan-in, the same tensor used twice by one op, diamonds,
multi-output ops (several nodes sharing an operand), any mix of operands that do and do not
require grad.  `optable_wellformed` ties the abstract `back` closures to *every* op wrapper in
the source; the per-op adjoint identity (`hadj`) is what C01/C02 establish.
-/
namespace Props.C03
open Synap.OpTable Synap.Generated Synap.Engine Proofs.Engine Finset

/-- **Every op wrapper in the source has the structure the engine theorems assume** (regenerated
    from functional.py / nn/functional.py on every run): children = exactly the tensor operands,
    result flag = any operand flag, `grad_fn` attached iff the result requires grad, every
    differentiable operand accumulated with `+=` exactly once under its own `requires_grad` guard,
    no other buffer written. -/
theorem optable_wellformed : opTable.all wellFormed = true := by decide +kernel

/-- the table and the model's catalogue name the same ops, each once -/
theorem catalogue_complete : sameNames opTable = true := by decide +kernel

variable {G R : Type}

/-- **The backward order is topological**: the traversal lists exactly the nodes reachable from
    the root, each once, every operand before the results that use it. -/
theorem postorder_topological (ns : Graph G) (hw : WFG ns) (root : Nat) (hr : root < ns.length) :
    let ord := (traverse ns root).ordered
    ord.Nodup ∧ root ∈ ord ∧
    (∀ u ∈ ord, ∀ n, ns[u]? = some n → ∀ c ∈ n.children, BeforeIn ord c u) ∧
    (∀ v, v ∈ ord ↔ Reach ns root v) :=
  traverse_order ns hw root hr

/-- **Each recorded operation contributes exactly once per backward call.** -/
theorem each_fn_once [Add G] (ns : Graph G) (hw : WFG ns) (root : Nat) (g : G) (retainAll : Bool)
    (ns' : Graph G) (tr : List TrEv) (h : backward ns root g retainAll = some (ns', tr)) (v : Nat) :
    (Reach ns root v ∧ (∃ n, ns[v]? = some n ∧ n.back.isSome = true) → tr.count (TrEv.call v) = 1) ∧
    (¬ (Reach ns root v ∧ (∃ n, ns[v]? = some n ∧ n.back.isSome = true)) → tr.count (TrEv.call v) = 0) :=
  Proofs.Engine.each_fn_once ns hw root g retainAll ns' tr h v

/-- **backward completes** whenever the root requires grad and every kernel accepts its gradient. -/
theorem backward_completes [Add G] (ns : Graph G) (hw : WFG ns) (hb : BacksTotal ns) (hq : BackImpliesReq ns)
    (root : Nat) (r : Node G) (hr : ns[root]? = some r) (hrg : r.reqGrad = true) (g : G) (retainAll : Bool) :
    ∃ res, backward ns root g retainAll = some res :=
  backward_succeeds ns hw hb hq root r hr hrg g retainAll

variable [AddCommMonoid G] [AddCommMonoid R]

/-- **Chain rule on any DAG (sum over all paths).**  `P` is any bi-additive pairing; `J v k` is the
    forward tangent map of node `v` in operand position `k`, adjoint to what `v`'s `grad_fn`
    contributes to that operand; `tan` is *any* assignment of tangents obeying the forward-mode
    recursion (0 on tensors that do not require grad).  Then the pairing of the root tangent with
    the upstream gradient equals what this call adds, in total, to the pairings of the leaf
    tangents with the leaf gradients.  Since the pairing is non-degenerate this says every leaf
    receives exactly the derivative of the whole composed function. -/
theorem chain_rule_any_dag (P : G →+ G →+ R) (ns : Graph G) (hw : WFG ns)
    (hb : BacksTotal ns) (hq : BackImpliesReq ns)
    (hz : ∀ (v : Nat) (n : Node G), ns[v]? = some n → n.zero = 0)
    (J : Nat → Nat → G →+ G)
    (hadj : ∀ v k t γ, P (J v k t) γ = P t (contrib ns v k γ))
    (tan : Nat → G)
    (htan0 : ∀ (v : Nat) (n : Node G), ns[v]? = some n → n.reqGrad = false → tan v = 0)
    (htan : ∀ (v : Nat) (n : Node G), ns[v]? = some n → n.isLeaf = false →
      tan v = ∑ k ∈ range n.children.length, J v k (tan (n.children.getD k 0)))
    (root : Nat) (g : G) (retainAll : Bool) (ns' : Graph G) (tr : List TrEv)
    (h : backward ns root g retainAll = some (ns', tr)) :
    ((leavesOf ns root).map (fun l => P (tan l) (gradOf ns' l))).sum
      = ((leavesOf ns root).map (fun l => P (tan l) (gradOf ns l))).sum + P (tan root) g :=
  backward_duality P ns hw hb hq hz J hadj tan htan0 htan root g retainAll ns' tr h

/-! ### Non-vacuity: a diamond `x ↦ (a = x·2, b = x·3) ↦ a + b` over `Int`, where every hypothesis of
the chain rule holds and backward runs -/
def diamond : Graph Int := [
  { children := [], reqGrad := true, back := none, retain := false, grad := none, zero := 0 },
  { children := [0], reqGrad := true, back := some (fun γ => some [some (2 * γ)]), retain := false, grad := none, zero := 0 },
  { children := [0], reqGrad := true, back := some (fun γ => some [some (3 * γ)]), retain := false, grad := none, zero := 0 },
  { children := [1, 2], reqGrad := true, back := some (fun γ => some [some γ, some γ]), retain := false, grad := none, zero := 0 } ]

example : (backward diamond 3 1 false).map (fun r => (r.1.map (·.grad), r.2))
    = some ([some 5, none, none, some 1], [.zero 1, .zero 0, .zero 2, .call 3, .call 2, .release 2, .call 1, .release 1]) := by
  decide

/-- **The theorems are about the loop the code runs.** `tensor.py` walks the graph with an explicit stack of
    `(node, iterator over its operands)` frames (`Synap.Engine.traverseStack`, a step-by-step model of that
    `while` loop); on every graph it ends in exactly the state of the recursive traversal the other theorems
    speak about: same visited set, same post-order, same buffers, same zero-initialisation events. -/
theorem code_loop_is_recursive_traversal (ns : Graph G) (hw : WFG ns) (root : Nat) (hr : root < ns.length) :
    traverseStack ns root = traverse ns root :=
  Proofs.EngineStack.traverseStack_eq_traverse ns hw root hr

theorem backward_with_code_loop [Add G] (ns : Graph G) (hw : WFG ns) (root : Nat) (g : G) (retainAll : Bool) :
    Proofs.EngineStack.backwardStack ns root g retainAll = backward ns root g retainAll :=
  Proofs.EngineStack.backwardStack_eq_backward ns hw root g retainAll

end Props.C03
