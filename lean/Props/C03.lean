import SynapModel.Generated.OpTable
namespace Props.C03
open Synap.OpTable Synap.Generated

/-- **Every op wrapper in the source has the structure the engine theorems assume** (regenerated
    from functional.py / nn/functional.py on every run): children = exactly the tensor operands,
    result flag = any operand flag, `grad_fn` attached iff the result requires grad, every
    differentiable operand accumulated with `+=` exactly once under its own `requires_grad` guard,
    no other buffer written. -/
theorem optable_wellformed : opTable.all wellFormed = true := by decide +kernel

/-- the table and the model's catalogue name the same ops, each once -/
theorem catalogue_complete : sameNames opTable = true := by decide +kernel

end Props.C03
