import Props.C17Logic
import Proofs.EngineStruct
import Proofs.EngineStack
import SynapModel.Api
/-!
# C17 — Backward scales to deep graphs and untracked computations keep no history (logical core)

Statements about `Synap.Engine.backward` / `Synap.Api` for graphs of *any* depth and size.
What no model can exhibit — CPython's recursion limit, reference counting, wall time — is
observed on the implementation by the check (`runtime_residue`), not proved.
-/
namespace Props.C17
open Synap.Engine Proofs.Engine

variable {G : Type}

/-- **The traversal lists exactly the nodes reachable from the root, each once, operands before
    results** — for every well-formed graph, whatever its depth. -/
theorem postorder_covers_reachable (ns : Graph G) (hw : WFG ns) (root : Nat) (hr : root < ns.length) :
    let ord := (traverse ns root).ordered
    ord.Nodup ∧ root ∈ ord ∧
    (∀ u ∈ ord, ∀ n, ns[u]? = some n → ∀ c ∈ n.children, BeforeIn ord c u) ∧
    (∀ v, v ∈ ord ↔ Reach ns root v) :=
  traverse_order ns hw root hr

variable [Add G]

/-- **Each recorded operation is visited exactly once** per backward call. -/
theorem each_fn_once (ns : Graph G) (hw : WFG ns) (root : Nat) (g : G) (retainAll : Bool)
    (ns' : Graph G) (tr : List TrEv) (h : backward ns root g retainAll = some (ns', tr)) (v : Nat) :
    (Reach ns root v ∧ (∃ n, ns[v]? = some n ∧ n.back.isSome = true) → tr.count (TrEv.call v) = 1) ∧
    (¬ (Reach ns root v ∧ (∃ n, ns[v]? = some n ∧ n.back.isSome = true)) → tr.count (TrEv.call v) = 0) :=
  Proofs.Engine.each_fn_once ns hw root g retainAll ns' tr h v

/-- **Cost linear in the size of the differentiable graph**: at most three engine events per
    reachable node. -/
theorem trace_linear (ns : Graph G) (hw : WFG ns) (root : Nat) (g : G) (retainAll : Bool)
    (ns' : Graph G) (tr : List TrEv) (h : backward ns root g retainAll = some (ns', tr)) :
    tr.length ≤ 3 * (traverse ns root).ordered.length :=
  Proofs.Engine.trace_linear ns hw root g retainAll ns' tr h

/-- **backward completes on every well-formed graph** (no depth bound in the model). -/
theorem backward_completes (ns : Graph G) (hw : WFG ns) (hb : BacksTotal ns) (hq : BackImpliesReq ns)
    (root : Nat) (r : Node G) (hr : ns[root]? = some r) (hrg : r.reqGrad = true) (g : G) (retainAll : Bool) :
    ∃ res, backward ns root g retainAll = some res :=
  backward_succeeds ns hw hb hq root r hr hrg g retainAll

/-- **The code's traversal is an explicit-stack loop, not a recursion, and it is linear**: the step-by-step model of
    the `while stack:` loop of `Tensor.backward`, given `stackFuel ns = (number of operand edges) + (number of nodes) + 1`
    turns, reaches exactly the state of the recursive traversal — so no Python recursion depth is involved at any graph
    depth, and the work of the traversal phase is bounded by edges + nodes. -/
theorem loop_is_iterative_and_linear (ns : Graph G) (hw : WFG ns) (root : Nat) (hr : root < ns.length) :
    runStack (stackFuel ns) ⟨[root], [], ns, []⟩ [⟨root, childrenOf ns root⟩] = traverse ns root ∧
    stackFuel ns = (ns.map (fun n => n.children.length + 1)).sum + 1 :=
  ⟨Proofs.EngineStack.traverseStack_eq_traverse ns hw root hr, rfl⟩

section Api
open Synap Synap.Api
variable {α : Type} [Zero α]

/-- **A tensor that does not require grad keeps no history**: created under `no_grad`, or from
    operands none of which require grad, it holds no operands (`children = []`) and no `grad_fn`,
    so nothing is reachable from it and its operands can be freed. -/
theorem untracked_has_no_history (st st' : TState α) (v : NDArray α) (dt : DType) (rg : Bool)
    (children : List Nat) (back : Option (NDArray α → Option (List (Option (NDArray α))))) (k : Nat)
    (h : mkTensor st v dt rg children back = some (st', k)) (hno : (rg && st.modes.grad) = false) :
    ∃ n, st'.g[k]? = some n ∧ n.children = [] ∧ n.back = none ∧ n.reqGrad = false ∧ n.grad = none := by
  unfold mkTensor at h
  simp only [hno, Bool.false_and, Bool.false_eq_true, if_false, Option.some.injEq, Prod.mk.injEq] at h
  obtain ⟨h1, h2⟩ := h
  subst h1; subst h2
  exact ⟨{ children := [], reqGrad := false, back := none, retain := false, grad := none,
           zero := NDArray.zeros v.shape }, by simp, rfl, rfl, rfl, rfl⟩

/-- the flag rule every op wrapper uses: under `no_grad` no result requires grad -/
theorem no_grad_mode_untracked (st st' : TState α) (v : NDArray α) (dt : DType) (rg : Bool)
    (children : List Nat) (back : Option (NDArray α → Option (List (Option (NDArray α))))) (k : Nat)
    (h : mkTensor st v dt rg children back = some (st', k)) (hmode : st.modes.grad = false) :
    ∃ n, st'.g[k]? = some n ∧ n.children = [] ∧ n.back = none ∧ n.reqGrad = false :=
  let ⟨n, a, b, c, d, _⟩ := untracked_has_no_history st st' v dt rg children back k h (by simp [hmode])
  ⟨n, a, b, c, d⟩

/-- **`backward()` leaves the modes alone** — whether it completes or raises, on any state: a `backward()` called inside an
    active `no_grad` / `retain_grads` block does not end (or start) the block. -/
theorem backward_keeps_modes [Add α] (st : TState α) (root : Nat) (g : NDArray α) :
    (Synap.Api.backward st root g).1.modes = st.modes := by
  unfold Synap.Api.backward
  split
  · split
    · rfl
    · split
      · rfl
      · dsimp only
        split <;> rfl
  · rfl

/-- **An untracked region stays untracked across a `backward()` inside it**: with tracking off, whatever is computed right
    after a `backward()` of an earlier recorded graph (complete or rejected) still holds no operands and no `grad_fn`. -/
theorem untracked_after_backward [Add α] (st st' : TState α) (root : Nat) (g v : NDArray α) (dt : DType) (rg : Bool)
    (children : List Nat) (back : Option (NDArray α → Option (List (Option (NDArray α))))) (k : Nat)
    (hmode : st.modes.grad = false)
    (h : mkTensor (Synap.Api.backward st root g).1 v dt rg children back = some (st', k)) :
    ∃ n, st'.g[k]? = some n ∧ n.children = [] ∧ n.back = none ∧ n.reqGrad = false :=
  no_grad_mode_untracked _ st' v dt rg children back k h (by rw [backward_keeps_modes]; exact hmode)

end Api
end Props.C17
