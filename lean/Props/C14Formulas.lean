import Proofs.FormulaTie
/-!
# C14 — the scalar formulas behind the fused losses, read from the source on this run, are the ones the identities are proved for

The BCE-with-logits vs BCE∘sigmoid identities of C14 (exact gap, gradient relation) are stated for `bceLogitsScalar` / `bceLogitsFactor`,
`bceScalar` / `bceFactor` and the sigmoid formula; these statements say the kernels of `cpu_ops.py`, as read by `harness/formulas.py` on this
run, compute exactly those — in particular the backward of BCE-with-logits is the one whose kinks cancel at a logit of exactly 0.
-/
namespace Props.C14
open Synap Synap.Kernels Proofs.FormulaTie Proofs.NL

theorem src_bce_logits_scalars (g x y : ℝ) :
    Gen.bce_with_logits_loss_forward x y = bceLogitsScalar x y ∧ Gen.bce_with_logits_loss_backward g x y = g * bceLogitsFactor x y :=
  ⟨gen_bce_logits_forward x y, gen_bce_logits_backward g x y⟩
theorem src_bce_scalars (g p t : ℝ) : Gen.bce_loss_forward p t = bceScalar p t ∧ Gen.bce_loss_backward g p t = bceFactor p t * g :=
  ⟨gen_bce_forward p t, gen_bce_backward g p t⟩
theorem src_sigmoid_scalars (g x s : ℝ) : Gen.sigmoid_forward x = 1 / (1 + Real.exp (-x)) ∧ Gen.sigmoid_backward g s = g * s * (1 - s) :=
  ⟨by formula_eq, by formula_eq⟩
/-- at a logit of exactly 0 the source's factor is `(1 - y) - 1/2 · (1 / (1 + ε/2))`-close to `sigmoid(0) - y`: the two kinks cancel -/
theorem src_bce_logits_backward_at_zero (y : ℝ) :
    |Gen.bce_with_logits_loss_backward 1 0 y - ((1 - y) - 1 / (1 + Real.exp 0))| ≤ (epsilon : ℝ) := by
  have h := (src_bce_logits 0 y).2 1
  simpa using h

end Props.C14
