import Lean
/-!
`#audit_ns NS` prints one line per theorem declared in namespace `NS`:
`AUDIT <name> axioms=[a,b,...]`, and `AUDIT-END <count>`.  Used by `harness/check.py` to count
proof obligations and to verify that no theorem depends on anything but the three standard axioms.
-/
open Lean Elab Command

elab "#audit_ns " ns:ident : command => do
  let env ← getEnv
  let nsName := ns.getId
  let mut names : Array Name := #[]
  for (n, ci) in env.constants.toList do
    if nsName.isPrefixOf n && !n.isInternal then
      match ci with
      | .thmInfo _ => names := names.push n
      | _ => pure ()
  let sorted := names.qsort (fun a b => a.toString < b.toString)
  for n in sorted do
    let ax ← Lean.collectAxioms n
    let axs := ", ".intercalate (ax.toList.map (·.toString))
    logInfo m!"AUDIT {n} axioms=[{axs}]"
  logInfo m!"AUDIT-END {sorted.size}"
