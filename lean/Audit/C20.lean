import Audit.Cmd
import Props.C20
#audit_ns Props.C20
