import Audit.Cmd
import Props.C18
#audit_ns Props.C18
