import Audit.Cmd
